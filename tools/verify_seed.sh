#!/bin/bash
# verify_seed.sh <ID> <seeddir> : confirms a seeded change in a scratch worktree of /repo:
# it applies, compiles, keeps the existing tests' results, and its demonstration
# fails with the change and passes without it.  Writes <seeddir>/verify.txt.
set -u
ID=$1; SD=$2
export GOFLAGS=-mod=mod GOPROXY=off GOSUMDB=off GOTOOLCHAIN=local
WT=/tmp/vs_$ID
git -C /repo worktree remove --force $WT 2>/dev/null
git -C /repo worktree add -q --detach $WT HEAD || exit 2
cd $WT
OUT=$SD/verify.txt; : > $OUT
run_demo() { # $1 label
  if [ -f $SD/demo.lua ]; then
    go build -ldflags=-checklinkname=0 -o /tmp/golua_vs_$ID . >>$OUT 2>&1 || { echo "$1: BUILD FAILED" >>$OUT; return 2; }
    timeout 120 /tmp/golua_vs_$ID $SD/demo.lua > /tmp/vs_${ID}_$1.out 2>&1; rc=$?
    echo "$1: demo.lua exit=$rc last: $(tail -1 /tmp/vs_${ID}_$1.out | cut -c1-150)" >>$OUT; return $rc
  elif ls $SD/demo_test.go >/dev/null 2>&1; then
    pkg=$(cat $SD/demo_pkg 2>/dev/null || echo runtime)
    cp $SD/demo_test.go $pkg/zz_seed_demo_test.go
    timeout 300 go test -count=1 -ldflags=-checklinkname=0 -run 'TestSeed' ./$pkg/ > /tmp/vs_${ID}_$1.out 2>&1; rc=$?
    rm -f $pkg/zz_seed_demo_test.go
    echo "$1: demo_test exit=$rc last: $(tail -1 /tmp/vs_${ID}_$1.out | cut -c1-150)" >>$OUT; return $rc
  fi
  echo "$1: no demo" >>$OUT; return 3
}
run_demo clean; C=$?
git apply $SD/patch.diff >>$OUT 2>&1 || { echo "PATCH DOES NOT APPLY" >>$OUT; cd /; git -C /repo worktree remove --force $WT; exit 2; }
go build ./... >/tmp/vs_${ID}_build.out 2>&1; grep -v "int64Hash\|^#" /tmp/vs_${ID}_build.out | head -3 >>$OUT
go vet ./runtime/ ./lib/... >/dev/null 2>&1
go test -count=1 -ldflags=-checklinkname=0 ./runtime/... ./lib/... ./scanner/ ./parsing/ ./luastrings/ ./ast/ ./code/ ./ir/ ./ircomp/ ./astcomp/ 2>&1 | grep -v "^ok\|no test files" | grep "FAIL\|panic" | sort -u | head -5 >>$OUT
rm -f lib/iolib/files/popenwrite.txt
run_demo seeded; S=$?
echo "RESULT clean_rc=$C seeded_rc=$S" >>$OUT
cd /; git -C /repo worktree remove --force $WT; rm -f /tmp/golua_vs_$ID /tmp/vs_${ID}_*.out
cat $OUT
