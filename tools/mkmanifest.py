#!/usr/bin/env python3
"""Regenerates /verif/MANIFEST.json from tools/claims.json (per-property claim text)."""
import json
props=[json.loads(l) for l in open('/verif/properties.jsonl')]
ids=[p['id'] for p in props]
claims=json.load(open('/verif/tools/claims.json'))
m={
 "version":1,
 "setup_cmd":"cd /verif/engine && GOFLAGS=-mod=mod GOPROXY=off GOSUMDB=off GOTOOLCHAIN=local go build -o /verif/bin/vcheck ./cmd/vcheck",
 "hooks":{"guard":"verif","enable":"no hook is committed to /repo: harness files carry //go:build verif and are injected at check time through go/packages Overlay (symbolic run) and go test -overlay (native replay) with -tags verif","baseline_off_cmd":"for m in $(cat /w/out/gomods.txt); do MF=$(cd /repo/$m && . /w/out/goenv.sh && gomodflag); (cd /repo/$m && go test $MF -json -vet=off -count=1 -timeout 25m ./...); done","source_commits":[],"add_only":True},
 "engines":[{"name":"gosym","path":"/verif/engine","serves_properties":sorted(k for k,v in claims.items() if v.get('claimed')),"kind_free_text":"symbolic executor for Go SSA (golang.org/x/tools/go/ssa) regenerated from /repo on every run; SMT back end cvc5 (bit-vector, floating-point, integer encodings); counterexamples replayed natively against the real build; translator validated against native runs"}],
 "checks":[],
 "not_applicable":[],
 "notes":"All checks: /verif/bin/vcheck -property <id> -tier quick|thorough. Exit 0 = held within bounds, 1 = VIOLATION (replayed natively first), 2 = machinery failure. See DESIGN.md."
}
for i in ids:
    c=claims.get(i,{})
    if c.get('claimed'):
        m["checks"].append({
          "property_id":i,
          "quick_cmd":"/verif/bin/vcheck -property %s -tier quick"%i,
          "thorough_cmd":"/verif/bin/vcheck -property %s -tier thorough"%i,
          "evidence_file":"/verif/evidence/%s.json"%i,
          "replay_cmd_template":"/verif/bin/vcheck -replay {path}",
          "engine":"gosym",
          "level_claimed":{"category":"model_checking","text":c['text'],"design_ref":"DESIGN.md §3 "+i},
          "level_note":c['note'],
          "technique":c.get('technique',"bounded symbolic execution of Go SSA + SMT (cvc5)")})
    else:
        m["not_applicable"].append({"property_id":i,"reason":c.get('reason',"check not built yet (work in progress; DESIGN.md §3 describes the planned solver-based kernels)")})
json.dump(m,open('/verif/MANIFEST.json','w'),indent=1)
print("claimed:",[c['property_id'] for c in m['checks']])
