//go:build verif

package code

// C01-K1 — opcode codec, complete over all operand values (no bound).
// Every constructor of instructions.go is applied to fully symbolic operands
// (register index 0..255 x cell bit, int16, KIndex, Index8, Offset,
// ClStackOffset, BinOp, UnOp) and decoded with the same predicate/getter
// sequence the VM uses (HasType1 -> GetX; else TypePfx switch -> GetY / GetJ /
// HasType4a -> GetUnOp / GetUnOpK; GetA/B/C, GetF, GetN, GetL, GetM, GetOffset,
// GetClStackOffset).  The decoded (class, operands) must be exactly the
// constructor's: fields never overlap and classes never collide.

const (
	vhT1 = iota + 1
	vhT2
	vhT3
	vhT4a
	vhT4b
	vhT5
	vhT6
	vhT7
	vhT0
	vhBad
)

// vhClass is the dispatch of LuaCont.RunInThread / LuaCont.Push.
func vhClass(c Opcode) int {
	if c.HasType1() {
		return vhT1
	}
	switch c.TypePfx() {
	case Type2Pfx:
		return vhT2
	case Type3Pfx:
		return vhT3
	case Type4Pfx:
		if c.HasType4a() {
			return vhT4a
		}
		return vhT4b
	case Type5Pfx:
		return vhT5
	case Type6Pfx:
		return vhT6
	case Type7Pfx:
		return vhT7
	case Type0Pfx:
		return vhT0
	}
	return vhBad
}

func vhReg(name string) Reg {
	r := Reg{idx: nondetByte(name + "_idx")}
	if nondetBool(name + "_cell") {
		r.tp = CellRegType
	}
	return r
}

func VerifH_C01_codec_type1_type2_type7() {
	r1, r2, r3 := vhReg("r1"), vhReg("r2"), vhReg("r3")
	op := BinOp(nondetByte("op"))
	verifAssume(op <= OpConcat)
	c := Combine(op, r1, r2, r3)
	verifAssert(vhClass(c) == vhT1 && !c.HasType0(), "combine-class")
	verifAssert(c.GetX() == op && c.GetA() == r1 && c.GetB() == r2 && c.GetC() == r3, "combine-fields")
	c = LoadLookup(r1, r2, r3)
	verifAssert(vhClass(c) == vhT2 && !c.GetF() && !c.HasType0(), "lookup-class")
	verifAssert(c.GetA() == r1 && c.GetB() == r2 && c.GetC() == r3, "lookup-fields")
	c = SetIndex(r1, r2, r3)
	verifAssert(vhClass(c) == vhT2 && c.GetF() && !c.HasType0(), "setindex-class")
	verifAssert(c.GetA() == r1 && c.GetB() == r2 && c.GetC() == r3, "setindex-fields")
	c = PrepForLoop(r1, r2, r3)
	verifAssert(vhClass(c) == vhT7 && !c.GetF() && !c.HasType0(), "prepfor-class")
	verifAssert(c.GetA() == r1 && c.GetB() == r2 && c.GetC() == r3, "prepfor-fields")
	c = AdvForLoop(r1, r2, r3)
	verifAssert(vhClass(c) == vhT7 && c.GetF() && !c.HasType0(), "advfor-class")
	verifAssert(c.GetA() == r1 && c.GetB() == r2 && c.GetC() == r3, "advfor-fields")
}

func VerifH_C01_codec_type3() {
	r := vhReg("r")
	k := KIndex(nondetUint16("k"))
	c := LoadConst(r, k)
	verifAssert(vhClass(c) == vhT3 && !c.GetF() && c.GetY() == OpK && c.GetY().LoadsK(), "loadconst-class")
	verifAssert(c.GetA() == r && c.GetKIndex() == k && c.GetN().ToKIndex() == k, "loadconst-fields")
	c = LoadClosure(r, k)
	verifAssert(vhClass(c) == vhT3 && !c.GetF() && c.GetY() == OpClosureK && c.GetY().LoadsK(), "loadclosure-class")
	verifAssert(c.GetA() == r && c.GetKIndex() == k, "loadclosure-fields")
	n := nondetInt16("n")
	c = LoadInt16(r, n)
	verifAssert(vhClass(c) == vhT3 && !c.GetF() && c.GetY() == OpInt16 && !c.GetY().LoadsK(), "loadint16-class")
	verifAssert(c.GetA() == r && c.GetN().ToInt16() == n, "loadint16-fields")
	big := nondetInt("big")
	c2, ok := LoadSmallInt(r, big)
	verifAssert(ok == (big >= -32768 && big <= 32767), "loadsmallint-range")
	if ok {
		verifReach("small-int")
		verifAssert(vhClass(c2) == vhT3 && c2.GetY() == OpInt16 && int(c2.GetN().ToInt16()) == big && c2.GetA() == r, "loadsmallint-value")
	}
	b := nondetBytes("s", 2)
	c = LoadStr2(r, b)
	verifAssert(vhClass(c) == vhT3 && !c.GetF() && c.GetY() == OpStr2, "loadstr2-class")
	s2 := c.GetN().ToStr2()
	verifAssert(c.GetA() == r && len(s2) == 2 && s2[0] == b[0] && s2[1] == b[1], "loadstr2-fields")
	// re-indexing a constant changes only the index field
	k2 := KIndex(nondetUint16("k2"))
	c = LoadConst(r, k).SetKIndex(k2)
	verifAssert(c == LoadConst(r, k2), "setkindex-only-changes-index")
	i := nondetInt("i")
	if i >= 0 && i <= 65535 {
		verifAssert(int(KIndexFromInt(i)) == i, "kindexfromint")
	}
}

func VerifH_C01_codec_type4() {
	r1, r2 := vhReg("r1"), vhReg("r2")
	op := UnOp(nondetByte("op"))
	verifAssume(op <= OpEtcId)
	c := Transform(op, r1, r2)
	verifAssert(vhClass(c) == vhT4a && !c.GetF() && !c.HasType0(), "transform-class")
	verifAssert(c.GetUnOp() == op && c.GetA() == r1 && c.GetB() == r2, "transform-fields")
	c = Push(r1, r2)
	verifAssert(vhClass(c) == vhT4a && c.GetF() && c.GetUnOp() == OpId && c.GetA() == r1 && c.GetB() == r2, "push")
	c = PushEtc(r1, r2)
	verifAssert(vhClass(c) == vhT4a && c.GetF() && c.GetUnOp() == OpEtcId && c.GetA() == r1 && c.GetB() == r2, "pushetc")
	c = Upval(r1, r2)
	verifAssert(vhClass(c) == vhT4a && !c.GetF() && c.GetUnOp() == OpUpvalue && c.GetA() == r1 && c.GetB() == r2, "upval")
	c = Cont(r1, r2)
	verifAssert(vhClass(c) == vhT4a && !c.GetF() && c.GetUnOp() == OpCont && c.GetA() == r1 && c.GetB() == r2, "cont")
	c = TailCont(r1, r2)
	verifAssert(vhClass(c) == vhT4a && !c.GetF() && c.GetUnOp() == OpTailCont && c.GetA() == r1 && c.GetB() == r2, "tailcont")
	// type 4b
	c = LoadNil(r1)
	verifAssert(vhClass(c) == vhT4b && !c.GetF() && c.GetUnOpK() == OpNil && c.GetA() == r1, "loadnil")
	c = LoadStr0(r1)
	verifAssert(vhClass(c) == vhT4b && !c.GetF() && c.GetUnOpK() == OpStr0 && c.GetA() == r1, "loadstr0")
	c = LoadEmptyTable(r1)
	verifAssert(vhClass(c) == vhT4b && !c.GetF() && c.GetUnOpK() == OpTable && c.GetA() == r1, "loadtable")
	c = Clear(r1)
	verifAssert(vhClass(c) == vhT4b && !c.GetF() && c.GetUnOpK() == OpClear && c.GetA() == r1, "clear")
	bv := nondetBool("b")
	c = LoadBool(r1, bv)
	verifAssert(vhClass(c) == vhT4b && !c.GetF() && c.GetUnOpK() == OpBool && c.GetA() == r1 && c.GetL().ToBool() == bv, "loadbool")
	s := nondetBytes("s", 1)
	c = LoadStr1(r1, s)
	verifAssert(vhClass(c) == vhT4b && !c.GetF() && c.GetUnOpK() == OpStr1 && c.GetA() == r1 && c.GetL().ToStr1()[0] == s[0], "loadstr1")
}

func VerifH_C01_codec_type5_type6_type0() {
	r1, r2 := vhReg("r1"), vhReg("r2")
	j := Offset(nondetInt16("j"))
	c := Jump(j)
	verifAssert(vhClass(c) == vhT5 && c.GetJ() == OpJump && c.GetOffset() == j && !c.HasType0(), "jump")
	c = JumpIf(j, r1)
	verifAssert(vhClass(c) == vhT5 && c.GetJ() == OpJumpIf && c.GetF() && c.GetOffset() == j && c.GetA() == r1, "jumpif")
	c = JumpIfNot(j, r1)
	verifAssert(vhClass(c) == vhT5 && c.GetJ() == OpJumpIf && !c.GetF() && c.GetOffset() == j && c.GetA() == r1, "jumpifnot")
	c = Call(r1)
	verifAssert(vhClass(c) == vhT5 && c.GetJ() == OpCall && !c.GetF() && c.GetA() == r1, "call")
	c = TailCall(r1)
	verifAssert(vhClass(c) == vhT5 && c.GetJ() == OpCall && c.GetF() && c.GetA() == r1, "tailcall")
	h := nondetUint16("h")
	c = ClTrunc(h)
	verifAssert(vhClass(c) == vhT5 && c.GetJ() == OpClStack && !c.GetF() && c.GetClStackOffset() == ClStackOffset(h), "cltrunc")
	c = ClPush(r1)
	verifAssert(vhClass(c) == vhT5 && c.GetJ() == OpClStack && c.GetF() && c.GetA() == r1, "clpush")
	// patching a jump changes only the offset
	j2 := Offset(nondetInt16("j2"))
	verifAssert(JumpIf(j, r1).SetOffset(j2) == JumpIf(j2, r1) && Jump(j).SetOffset(j2) == Jump(j2) && JumpIfNot(j, r1).SetOffset(j2) == JumpIfNot(j2, r1), "setoffset-only-changes-offset")
	// type 6
	i := nondetInt("i")
	verifAssume(i >= 0 && i <= 255)
	c = LoadEtcLookup(r1, r2, i)
	verifAssert(vhClass(c) == vhT6 && !c.GetF() && c.GetA() == r1 && c.GetB() == r2 && int(c.GetM()) == i && !c.HasType0(), "etclookup")
	c = FillTable(r1, r2, i)
	verifAssert(vhClass(c) == vhT6 && c.GetF() && c.GetA() == r1 && c.GetB() == r2 && int(c.GetM()) == i && !c.HasType0(), "filltable")
	// type 0
	c = Receive(r1)
	verifAssert(vhClass(c) == vhT0 && c.HasType0() && !c.GetF() && c.GetA() == r1, "receive")
	c = ReceiveEtc(r1)
	verifAssert(vhClass(c) == vhT0 && c.HasType0() && c.GetF() && c.GetA() == r1, "receiveetc")
}

// out-of-range 8-bit / 16-bit indices are rejected (by a panic the compiler
// turns into an error), never truncated
func VerifH_C01_codec_index_limits() {
	i := nondetInt("i")
	verifAssume(i < 0 || i > 255)
	panicked := false
	func() {
		defer func() {
			if recover() != nil {
				panicked = true
			}
		}()
		_ = Index8FromInt(i)
	}()
	verifAssert(panicked, "index8-out-of-range-rejected")
	k := nondetInt("k")
	verifAssume(k < 0 || k > 65535)
	panicked = false
	func() {
		defer func() {
			if recover() != nil {
				panicked = true
			}
		}()
		_ = KIndexFromInt(k)
	}()
	verifAssert(panicked, "kindex-out-of-range-rejected")
}
