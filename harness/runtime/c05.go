//go:build verif

package runtime

// C05 — CPU limit.  K1: context-manager lemmas (one step from an arbitrary
// state satisfying the representation invariant vhInv of c07.go), K1b: k
// consecutive requests.  Stated bound: limits, counters and single amounts
// are < 2^63 (vhLimBound).

// vhCatchKill runs f and reports whether it ended with a ContextTerminationError.
func vhCatchKill(f func()) (killed bool) {
	defer func() {
		if r := recover(); r != nil {
			if _, ok := r.(ContextTerminationError); ok {
				killed = true
				return
			}
			panic(r)
		}
	}()
	f()
	return false
}

func VerifH_C05_require_cpu_step() {
	m := vhArbitraryManager("m_")
	verifAssume(vhInv(m) && vhBoundedManager(m) && !m.trackTime)
	a := nondetUint64("amount")
	verifAssume(a < vhLimBound)
	used, hard := m.usedResources.Cpu, m.hardLimits.Cpu
	hardStop := m.stopLevel&HardStop != 0
	killed := vhCatchKill(func() { m.RequireCPU(a) })
	over := hard != 0 && used+a >= hard // no wrap: both < 2^63
	if !m.trackCpu {
		verifReach("untracked")
		verifAssert(!killed && m.usedResources.Cpu == used, "untracked-context-is-not-charged")
		verifAssert(hard == 0, "untracked-means-unlimited")
		return
	}
	if killed {
		verifReach("killed")
		verifAssert(over || hardStop, "killed-only-when-limit-reached-or-stopped")
		verifAssert(m.status == StatusKilled, "status-killed")
		verifAssert(m.usedResources.Cpu == used, "used-unchanged-on-kill")
		return
	}
	verifReach("admitted")
	verifAssert(!over && !hardStop, "over-limit-request-must-kill")
	verifAssert(m.usedResources.Cpu == used+a, "used-increases-exactly")
	verifAssert(hard == 0 || m.usedResources.Cpu < hard, "used-stays-below-limit")
	verifAssert(vhInv(m), "invariant-preserved")
}

// k consecutive requests: killed exactly when some prefix sum reaches L.
func VerifH_C05_require_cpu_sequence() {
	m := &runtimeContextManager{}
	m.initRoot()
	L := nondetUint64("L")
	verifAssume(L > 0 && L < vhLimBound)
	m.PushContext(RuntimeContextDef{HardLimits: RuntimeResources{Cpu: L}})
	verifAssert(m.trackCpu && m.hardLimits.Cpu == L && m.requiredFlags&ComplyCpuSafe != 0, "limit-installed")
	k := 3
	if verifTier() == 1 {
		k = 6
	}
	var sum uint64
	dead := false
	for i := 0; i < k; i++ {
		a := nondetUint64("a")
		verifAssume(a < (uint64(1) << 59)) // k*a cannot wrap
		killed := vhCatchKill(func() { m.RequireCPU(a) })
		if dead {
			// the real callers never continue after a kill; a killed context
			// admits nothing more that could be observed as 'live'
			verifAssert(m.status == StatusKilled, "stays-killed")
			continue
		}
		sum += a
		verifAssert(killed == (sum >= L), "killed-iff-prefix-sum-reaches-limit")
		if killed {
			dead = true
			verifReach("sequence-killed")
			verifAssert(m.usedResources.Cpu < L, "used-below-limit-after-kill")
		} else {
			verifAssert(m.usedResources.Cpu == sum, "used-is-prefix-sum")
		}
	}
	if !dead {
		verifReach("sequence-completes")
	}
}

// a killed context stays killed: later requests do not revive it, and
// PopContext reports 'killed'.
func VerifH_C05_killed_is_reported() {
	m := &runtimeContextManager{}
	m.initRoot()
	L := nondetUint64("L")
	verifAssume(L > 0 && L < vhLimBound)
	m.PushContext(RuntimeContextDef{HardLimits: RuntimeResources{Cpu: L}})
	a := nondetUint64("a")
	verifAssume(a < vhLimBound && a >= L)
	killed := vhCatchKill(func() { m.RequireCPU(a) })
	verifAssert(killed, "request-at-or-over-limit-kills")
	ctx := m.PopContext()
	verifAssert(ctx != nil && ctx.Status() == StatusKilled, "popped-context-reports-killed")
	verifAssert(ctx.UsedResources().Cpu < L, "reported-used-below-limit")
	verifAssert(m.parent == nil && m.status == StatusLive, "root-continues")
}

// K2: a kill inside a nested context whose CPU limit is only what the enclosing
// context had left (no limit of its own — the shape of pcall / xpcall /
// callcontext({}) — or an explicit limit at least as large as that remainder)
// must not be interceptable: the enclosing limited context may not run on.  A
// nested context that dies of a smaller limit of its own does not terminate
// its parent.  The real Thread.CallContext is used for both levels; the work
// done is a symbolic RequireCPU.
func VerifH_C05_kill_not_interceptable() {
	_, t := vhNewRuntime()
	L := nondetUint64("L")
	verifAssume(L >= 2 && L < (uint64(1)<<40))
	a := nondetUint64("a")
	verifAssume(a < (uint64(1) << 40))
	li := nondetUint64("Li") // the nested context's own limit, 0 = none
	verifAssume(li < (uint64(1) << 40))
	ranAfterKill := false
	innerKilled := false
	var rem uint64
	outer, outerErr := t.CallContext(RuntimeContextDef{HardLimits: RuntimeResources{Cpu: L}}, func() error {
		rem = L - t.UsedResources().Cpu
		inner, _ := t.CallContext(RuntimeContextDef{HardLimits: RuntimeResources{Cpu: li}}, func() error {
			t.RequireCPU(a)
			return nil
		})
		if inner != nil && inner.Status() == StatusKilled {
			innerKilled = true
			// if the limit L of the enclosing context was hit, no further code of
			// that context may run, i.e. its next instruction must terminate it
			t.RequireCPU(1)
			ranAfterKill = true
		}
		return nil
	})
	_ = outerErr
	eff := rem
	if li != 0 && li < rem {
		eff = li
	}
	innerDies := a >= eff
	parentExhausted := innerDies && (li == 0 || li >= rem)
	if !parentExhausted {
		// (when the parent is exhausted as well, control never comes back to the
		// code that reads the nested context's status)
		verifAssert(innerKilled == innerDies, "nested-context-killed-exactly-when-its-own-limit-is-reached")
	}
	verifAssert(!(ranAfterKill && parentExhausted), "kill-not-interceptable-by-nested-context")
	if parentExhausted {
		verifReach("limit-hit")
		verifAssert(outer != nil && outer.Status() == StatusKilled, "limited-context-reported-killed")
		verifAssert(outer != nil && outer.UsedResources().Cpu < L, "reported-usage-below-limit")
	} else if !innerDies {
		verifReach("within-limit")
		verifAssert(outer != nil && outer.Status() == StatusDone && outer.UsedResources().Cpu == a, "completes-with-exact-usage")
	} else {
		verifReach("nested-limit-hit")
		verifAssert(outer != nil && outer.UsedResources().Cpu < L, "reported-usage-below-limit")
	}
}

// K2b: __close handlers cannot outrun the limit, also when the body of the
// context ended with an error.  The real CallContext / cleanupCloseStack /
// Metacall machinery runs a __close GoFunction that asks for a symbolic amount
// of CPU.
func VerifH_C05_close_handler_is_metered() {
	r, t := vhNewRuntime()
	L := nondetUint64("L")
	verifAssume(L >= 100 && L < (uint64(1)<<40))
	a, b := nondetUint64("a"), nondetUint64("b")
	verifAssume(a < (uint64(1)<<40) && b < (uint64(1)<<40))
	handlerFinished := false
	closeFn := NewGoFunction(func(t *Thread, c *GoCont) (Cont, error) {
		t.RequireCPU(b)
		handlerFinished = true
		return c.Next(), nil
	}, "close", 2, false)
	closeFn.SolemnlyDeclareCompliance(ComplyCpuSafe | ComplyMemSafe | ComplyTimeSafe | ComplyIoSafe)
	meta := NewTable()
	r.SetEnv(meta, "__close", FunctionValue(closeFn))
	guard := NewTable()
	guard.SetMetatable(meta)
	bodyFails := verifChoose("bodyfails", 2) == 1
	ctx, _ := t.CallContext(RuntimeContextDef{HardLimits: RuntimeResources{Cpu: L}}, func() error {
		t.closeStack.push(TableValue(guard)) // a pending to-be-closed value
		t.RequireCPU(a)
		if bodyFails {
			return NewError(StringValue("boom"))
		}
		return nil
	})
	verifAssert(ctx != nil, "context-returned")
	if ctx == nil {
		return
	}
	used := ctx.UsedResources().Cpu
	verifAssert(used < L, "used-never-reaches-the-limit")
	if a+b >= L {
		verifReach("over-limit")
		verifAssert(ctx.Status() == StatusKilled, "over-limit-run-is-killed")
		verifAssert(!handlerFinished || a+b < L, "handler-does-not-complete-past-the-limit")
	}
	if handlerFinished {
		verifReach("handler-ran")
		verifAssert(used >= a+b, "handler-work-is-charged")
	}
	verifAssert(t.closeStack.size() == 0, "close-stack-unwound")
}
