//go:build verif

package runtime

// C06 — memory limit.  K1: manager lemmas for RequireMem / RequireSize /
// RequireArrSize / RequireBytes / ReleaseMem / LinearUnused / LinearRequire.

func VerifH_C06_require_mem_step() {
	m := vhArbitraryManager("m_")
	verifAssume(vhInv(m) && vhBoundedManager(m))
	a := nondetUint64("amount")
	verifAssume(a < vhLimBound)
	used, hard := m.usedResources.Memory, m.hardLimits.Memory
	hardStop := m.stopLevel&HardStop != 0
	killed := vhCatchKill(func() { m.RequireMem(a) })
	over := hard != 0 && used+a >= hard
	if !m.trackMem {
		verifReach("untracked")
		verifAssert(!killed && m.usedResources.Memory == used && hard == 0, "untracked-means-unlimited")
		return
	}
	if killed {
		verifReach("killed")
		verifAssert(over || hardStop, "killed-only-when-limit-reached-or-stopped")
		verifAssert(m.status == StatusKilled && m.usedResources.Memory == used, "killed-before-accounting")
		return
	}
	verifReach("admitted")
	verifAssert(!over && !hardStop, "over-limit-request-must-kill")
	verifAssert(m.usedResources.Memory == used+a && (hard == 0 || m.usedResources.Memory < hard), "accounted-below-limit")
	verifAssert(vhInv(m), "invariant-preserved")
}

// sized variants: the amount charged is the exact product, which must not wrap.
func VerifH_C06_require_arr_size() {
	m := vhArbitraryManager("m_")
	verifAssume(vhInv(m) && vhBoundedManager(m) && m.trackMem && m.hardLimits.Memory != 0 && m.stopLevel&HardStop == 0)
	sz := uintptr(nondetUint64("sz"))
	n := nondetInt("n")
	// caller precondition (checked at the call sites by the metering
	// harnesses): the element count is non-negative and small enough that
	// sz*n cannot wrap; sz is a compile-time unsafe.Sizeof.
	verifAssume(sz <= 4096 && n >= 0 && n < (1 << 50))
	used, hard := m.usedResources.Memory, m.hardLimits.Memory
	var mem uint64
	killed := vhCatchKill(func() { mem = m.RequireArrSize(sz, n) })
	want := uint64(sz) * uint64(n)
	if killed {
		verifReach("killed")
		verifAssert(want >= hard-used, "killed-only-when-over")
	} else {
		verifReach("admitted")
		verifAssert(mem == want && m.usedResources.Memory == used+want && m.usedResources.Memory < hard, "exact-product-charged")
	}
}

func VerifH_C06_require_bytes() {
	m := vhArbitraryManager("m_")
	verifAssume(vhInv(m) && vhBoundedManager(m) && m.trackMem && m.hardLimits.Memory != 0 && m.stopLevel&HardStop == 0)
	n := nondetInt("n")
	// caller precondition: n >= 0 (uint64(n) of a negative n would lower the
	// counter; call sites are checked by the metering harnesses)
	verifAssume(n >= 0)
	used, hard := m.usedResources.Memory, m.hardLimits.Memory
	killed := vhCatchKill(func() { m.RequireBytes(n) })
	verifAssert(killed == (uint64(n) >= hard-used), "killed-iff-over")
	if !killed {
		verifReach("admitted")
		verifAssert(m.usedResources.Memory == used+uint64(n), "exact-bytes-charged")
	}
}

func VerifH_C06_release_mem() {
	m := vhArbitraryManager("m_")
	verifAssume(vhInv(m) && vhBoundedManager(m))
	a := nondetUint64("amount")
	used := m.usedResources.Memory
	panicked := false
	func() {
		defer func() {
			if r := recover(); r != nil {
				panicked = true
			}
		}()
		m.ReleaseMem(a)
	}()
	if a <= used {
		verifReach("release-within")
		verifAssert(!panicked, "release-of-held-memory-never-panics")
		if m.hardLimits.Memory > 0 {
			verifAssert(m.usedResources.Memory == used-a, "counter-decreases-exactly")
		} else {
			verifAssert(m.usedResources.Memory == used, "unlimited-context-unchanged")
		}
	} else {
		verifReach("release-too-much")
		verifAssert(m.usedResources.Memory <= used, "never-underflows")
	}
	verifAssert(m.usedResources.Memory <= used, "release-never-increases")
}

// vhLimitedManager returns a manager in a context created by the real
// PushContext with symbolic hard limits (0 = unlimited) that has already
// consumed symbolic amounts below its limits.
func vhLimitedManager() *runtimeContextManager {
	m := &runtimeContextManager{}
	m.initRoot()
	lc, lm := nondetUint64("Lcpu"), nondetUint64("Lmem")
	verifAssume(lc < (uint64(1)<<56) && lm < (uint64(1)<<56))
	m.PushContext(RuntimeContextDef{HardLimits: RuntimeResources{Cpu: lc, Memory: lm}})
	uc, um := nondetUint64("ucpu"), nondetUint64("umem")
	verifAssume((lc == 0 && uc == 0) || uc < lc)
	verifAssume((lm == 0 && um == 0) || um < lm)
	m.RequireCPU(uc)
	m.RequireMem(um)
	return m
}

var vhFactors = [4]uint64{1, 4, 10, 64}

func VerifH_C06_linear_unused() {
	m := vhLimitedManager()
	f := vhFactors[verifChoose("factor", 4)]
	hc, hm := m.hardLimits.Cpu, m.hardLimits.Memory
	uc, um := m.usedResources.Cpu, m.usedResources.Memory
	lu := m.LinearUnused(f)
	// the budget never exceeds what a limited resource has left
	if hm != 0 {
		verifReach("mem-limited")
		verifAssert(lu <= hm-um, "linear-unused<=mem-left")
	}
	if hc != 0 {
		verifReach("cpu-limited")
		verifAssert(lu <= (hc-uc)*f, "linear-unused<=cpu-left*factor")
	}
	if hm != 0 || hc != 0 {
		verifAssert(lu != 0, "limited-context-never-reports-unlimited")
	} else {
		verifReach("unlimited")
		verifAssert(lu == 0, "unlimited-context-reports-0")
	}
}

func VerifH_C06_linear_require() {
	m := vhLimitedManager()
	f := vhFactors[verifChoose("factor", 4)]
	hc, hm := m.hardLimits.Cpu, m.hardLimits.Memory
	uc, um := m.usedResources.Cpu, m.usedResources.Memory
	amt := nondetUint64("amt")
	verifAssume(amt < (uint64(1) << 57))
	killed := vhCatchKill(func() { m.LinearRequire(f, amt) })
	overMem := hm != 0 && um+amt >= hm
	overCpu := hc != 0 && uc+amt/f >= hc
	verifAssert(killed == (overMem || overCpu), "killed-iff-either-resource-over")
	if !killed {
		verifReach("linear-admitted")
		verifAssert(hm == 0 || m.usedResources.Memory == um+amt, "mem-charged")
		verifAssert(hc == 0 || m.usedResources.Cpu == uc+amt/f, "cpu-charged")
	} else {
		verifReach("linear-killed")
		verifAssert(m.status == StatusKilled, "status-killed")
	}
}
