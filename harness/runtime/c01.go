//go:build verif

package runtime

// C01-K4 — program corpus with symbolic argument values.  Each snippet is
// compiled by the REAL front end and compiler (scanner, parser, astcomp,
// ircomp, code builder — executed from their SSA on the concrete source text)
// and run by the real VM with symbolic Lua values as arguments.  Host-visible
// events (values passed to the host callback "emit", results) are compared
// with the trace the Lua 5.4 manual prescribes for all argument values.

type vhTrace struct {
	vals []Value
}

// vhRunChunk compiles and runs src with the given arguments ("..."), returning
// the emitted trace, the results and the error.
func vhRunChunk(src string, args ...Value) (trace []Value, results []Value, err error) {
	r, t := vhNewRuntime()
	tr := &vhTrace{}
	env := r.GlobalEnv()
	r.SetEnvGoFunc(env, "emit", func(t *Thread, c *GoCont) (Cont, error) {
		tr.vals = append(tr.vals, c.Etc()...)
		return c.Next(), nil
	}, 0, true)
	clos, cerr := r.CompileAndLoadLuaChunk("corpus", []byte(src), TableValue(env))
	if cerr != nil {
		return nil, nil, cerr
	}
	term := NewTerminationWith(nil, 0, true)
	err = Call(t, FunctionValue(clos), args, term)
	return tr.vals, term.Etc(), err
}

func vhTraceIs(trace []Value, want ...Value) bool {
	if len(trace) != len(want) {
		return false
	}
	for i := range want {
		if !vhSameValue(trace[i], want[i]) {
			return false
		}
	}
	return true
}

// fresh local per loop iteration, captured by closures, across break
func VerifH_C01_corpus_closure_break() {
	a := nondetInt64("a")
	trace, _, err := vhRunChunk(`
local a = ...
local fs = {}
for j = 1, 2 do
  for i = 1, 3 do
    local x = a * j + i
    fs[#fs + 1] = function() return x end
    if i == 2 then break end
  end
end
for k = 1, #fs do emit(fs[k]()) end
`, IntValue(a))
	verifAssert(err == nil, "runs")
	verifAssert(vhTraceIs(trace, IntValue(a+1), IntValue(a+2), IntValue(2*a+1), IntValue(2*a+2)), "each-closure-keeps-its-own-variable")
}

// statement shapes whose meaning the manual spells out: order of evaluation in
// multiple assignment (§3.3.3), adjustment of value lists, method-call self
// evaluated once, repeat-until scope, and/or values, upvalues across three
// levels, goto continue, a modified copy of a for control variable
func VerifH_C01_corpus_statement_shapes() {
	n := nondetInt64("n")
	which := verifChoose("shape", 6)
	N := IntValue(n)
	var src string
	var want []Value
	switch which {
	case 0:
		src = `
local n = ...
local i, a = 3, {}
i, a[i] = i + 1, n
emit(i, a[3], a[4])
local t = {}
local old = t
t, t.x = {}, n
emit(old.x, t.x)
local x, y = 1, n
x, y = y, x
emit(x, y)
local u, v = {}, {}
local k = 1
k, u[k], v[k] = 2, n, k
emit(k, u[1], u[2], v[1], v[2])
`
		want = []Value{IntValue(4), N, NilValue, N, NilValue, N, IntValue(1), IntValue(2), N, NilValue, IntValue(1), NilValue}
	case 1:
		src = `
local n = ...
local function f(...) return ... end
local p, q, r = f(n, 2), 10
emit(p, q, r)
local s, t, u = 1, f(n, 2)
emit(s, t, u)
emit((f(n, 2)))
local cnt = 0
local obj = {tag = n, m = function(self, v) return self.tag, v end}
local function get() cnt = cnt + 1 return obj end
emit(get():m(5))
emit(cnt)
`
		want = []Value{N, IntValue(10), NilValue, IntValue(1), N, IntValue(2), N, N, IntValue(5), IntValue(1)}
	case 2:
		src = `
local n = ...
local k = 0
repeat local done = k >= 2; k = k + 1 until done
emit(k)
emit(nil or n, false and n, n and 7, 0 and n, nil and n, false or nil)
local z = n == n and "same" or "diff"
emit(z)
`
		want = []Value{IntValue(3), N, BoolValue(false), IntValue(7), N, NilValue, NilValue, StringValue("same")}
	case 3:
		src = `
local n = ...
local function outer()
  local u = n
  return function() return function() u = u + 1; return u end end
end
local mk = outer()
local i1, i2 = mk(), mk()
emit(i1(), i2(), i1())
for j = 1, 3 do
  if j == 2 then goto cont end
  emit(j)
  ::cont::
end
`
		want = []Value{IntValue(n + 1), IntValue(n + 2), IntValue(n + 3), IntValue(1), IntValue(3)}
	case 4:
		src = `
local n = ...
for j = 1, 3 do local c = j; j = j * 10 + n; emit(c, j) end
local acc = {}
for j = 3, 1, -1 do acc[#acc + 1] = j end
emit(#acc, acc[1], acc[3])
local w = 0
while true do w = w + 1; if w > 2 then break end end
emit(w)
`
		want = []Value{IntValue(1), IntValue(10 + n), IntValue(2), IntValue(20 + n), IntValue(3), IntValue(30 + n), IntValue(3), IntValue(3), IntValue(1), IntValue(3)}
	case 5:
		// every expression of a list is evaluated, also the ones whose values
		// are thrown away by the adjustment (§3.3.3)
		src = `
local n = ...
local function f(tag) emit(tag) return tag end
local a = f(1), f(2), f(n)
emit("a", a)
local b, c
b, c = f(3), f(4), f(5)
emit("bc", b, c)
local t = {}
t.x = f(6), f(7)
emit("t", t.x)
`
		want = []Value{IntValue(1), IntValue(2), N, StringValue("a"), IntValue(1),
			IntValue(3), IntValue(4), IntValue(5), StringValue("bc"), IntValue(3), IntValue(4),
			IntValue(6), IntValue(7), StringValue("t"), IntValue(6)}
	}
	trace, _, err := vhRunChunk(src, N)
	verifAssert(err == nil, "runs")
	verifAssert(vhTraceIs(trace, want...), "statement-shape-behaves-as-the-manual-prescribes")
}
