//go:build verif

package runtime

// C01-K4 — program corpus with symbolic argument values.  Each snippet is
// compiled by the REAL front end and compiler (scanner, parser, astcomp,
// ircomp, code builder — executed from their SSA on the concrete source text)
// and run by the real VM with symbolic Lua values as arguments.  Host-visible
// events (values passed to the host callback "emit", results) are compared
// with the trace the Lua 5.4 manual prescribes for all argument values.

type vhTrace struct {
	vals []Value
}

// vhRunChunk compiles and runs src with the given arguments ("..."), returning
// the emitted trace, the results and the error.
func vhRunChunk(src string, args ...Value) (trace []Value, results []Value, err error) {
	r, t := vhNewRuntime()
	tr := &vhTrace{}
	env := r.GlobalEnv()
	r.SetEnvGoFunc(env, "emit", func(t *Thread, c *GoCont) (Cont, error) {
		tr.vals = append(tr.vals, c.Etc()...)
		return c.Next(), nil
	}, 0, true)
	clos, cerr := r.CompileAndLoadLuaChunk("corpus", []byte(src), TableValue(env))
	if cerr != nil {
		return nil, nil, cerr
	}
	term := NewTerminationWith(nil, 0, true)
	err = Call(t, FunctionValue(clos), args, term)
	return tr.vals, term.Etc(), err
}

func vhTraceIs(trace []Value, want ...Value) bool {
	if len(trace) != len(want) {
		return false
	}
	for i := range want {
		if !vhSameValue(trace[i], want[i]) {
			return false
		}
	}
	return true
}

// fresh local per loop iteration, captured by closures, across break
func VerifH_C01_corpus_closure_break() {
	a := nondetInt64("a")
	trace, _, err := vhRunChunk(`
local a = ...
local fs = {}
for j = 1, 2 do
  for i = 1, 3 do
    local x = a * j + i
    fs[#fs + 1] = function() return x end
    if i == 2 then break end
  end
end
for k = 1, #fs do emit(fs[k]()) end
`, IntValue(a))
	verifAssert(err == nil, "runs")
	verifAssert(vhTraceIs(trace, IntValue(a+1), IntValue(a+2), IntValue(2*a+1), IntValue(2*a+2)), "each-closure-keeps-its-own-variable")
}
