//go:build verif

package runtime

import "bytes"

// C04 — loading an untrusted binary chunk: UnmarshalConst on the marshal
// prefix followed by arbitrary bytes returns a value or an error; it does not
// panic and does not allocate more than the input can justify (an allocation
// whose symbolic size can exceed the stated bound is reported as a crash: in
// the real runtime it is a makeslice panic or a fatal out-of-memory error).
func VerifH_C04_unmarshal_untrusted_bytes() {
	n := 9 + 8*verifChoose("extra", 3) // tag + one size field, plus 0..2 more fields
	if verifTier() == 1 {
		n += 16
	}
	verifAllocFatal()
	data := append([]byte{}, marshalPrefix...)
	data = append(data, []byte(nondetString("data", n))...)
	crashed := false
	func() {
		defer func() {
			if r := recover(); r != nil {
				crashed = true
			}
		}()
		UnmarshalConst(bytes.NewBuffer(data), 0)
	}()
	verifAssert(!crashed, "no-go-panic-or-unbounded-allocation-from-untrusted-binary-chunk")
	verifReach("unmarshal-returned")
}
