//go:build verif

package runtime

import "bytes"

// C04 — loading an untrusted binary chunk: UnmarshalConst on the marshal
// prefix followed by arbitrary bytes returns a value or an error; it does not
// panic and does not allocate more than the input can justify (an allocation
// whose symbolic size can exceed the stated bound is reported as a crash: in
// the real runtime it is a makeslice panic or a fatal out-of-memory error).
func VerifH_C04_unmarshal_untrusted_bytes() {
	n := 9 + 8*verifChoose("extra", 3) // tag + one size field, plus 0..2 more fields
	if verifTier() == 1 {
		n += 16
	}
	verifAllocFatal()
	data := append([]byte{}, marshalPrefix...)
	data = append(data, []byte(nondetString("data", n))...)
	crashed := false
	func() {
		defer func() {
			if r := recover(); r != nil {
				crashed = true
			}
		}()
		UnmarshalConst(bytes.NewBuffer(data), 0)
	}()
	verifAssert(!crashed, "no-go-panic-or-unbounded-allocation-from-untrusted-binary-chunk")
	verifReach("unmarshal-returned")
}

// every source text of up to 1 (quick) / 2 (thorough) arbitrary bytes, alone
// and embedded in a statement context, goes through the real scanner, parser
// and compiler: a closure or an error comes back, never a Go panic
func VerifH_C04_source_bytes_never_panic() {
	r, _ := vhNewRuntime()
	maxn := 1
	if verifTier() == 1 {
		maxn = 2
	}
	n := verifChoose("n", maxn+1)
	src := nondetString("src", n)
	ncontexts := 4
	if n == 2 {
		ncontexts = 1 // two arbitrary bytes: alone
	}
	switch verifChoose("context", ncontexts) {
	case 1:
		src = "return " + src
	case 2:
		src = "local x = " + src + " x()"
	case 3:
		src = "x = '" + src + "' .. [[" + src + "]]"
	}
	crashed := false
	func() {
		defer func() {
			if recover() != nil {
				crashed = true
			}
		}()
		r.CompileAndLoadLuaChunk("chunk", []byte(src), TableValue(r.GlobalEnv()))
	}()
	verifAssert(!crashed, "no-go-panic-from-compiling-arbitrary-source-bytes")
}

// implementation limits: more locals, upvalues, constants, nested blocks and
// call arguments than the bytecode can address give a compile error (or
// compile and run correctly), not a panic or wrong code
func VerifH_C04_implementation_limits() {
	r, t := vhNewRuntime()
	var src string
	nlimits := 4
	if verifTier() == 1 {
		nlimits = 5 // the long-jump program takes a few hundred million interpreter steps
	}
	which := verifChoose("limit", nlimits)
	switch which {
	case 0: // 300 locals in one function
		for i := 0; i < 300; i++ {
			src += "local v" + vhItoa(i) + " = " + vhItoa(i) + "\n"
		}
		src += "return v0 + v299"
	case 1: // 300 distinct string constants and 300 table fields
		src = "local t = {"
		for i := 0; i < 300; i++ {
			src += "k" + vhItoa(i) + " = 'c" + vhItoa(i) + "', "
		}
		src += "} return t.k0 .. t.k299"
	case 2: // 260 arguments in a call / 260 items in a table constructor
		src = "local function f(...) local t = {...} return #t end return f("
		for i := 0; i < 260; i++ {
			if i > 0 {
				src += ", "
			}
			src += vhItoa(i)
		}
		src += ")"
	case 3: // nesting: 120 nested blocks and 120 nested parentheses
		for i := 0; i < 120; i++ {
			src += "do "
		}
		src += "x = "
		for i := 0; i < 120; i++ {
			src += "("
		}
		src += "1"
		for i := 0; i < 120; i++ {
			src += ")"
		}
		for i := 0; i < 120; i++ {
			src += " end"
		}
		src += " return x"
	case 4: // a jump over 40000 instructions
		src = "local n = ... if n then\n"
		for i := 0; i < 14000; i++ {
			src += "n=n+1 "
		}
		src += "end return n"
	}
	crashed := false
	var results []Value
	var cerr, rerr error
	func() {
		defer func() {
			if recover() != nil {
				crashed = true
			}
		}()
		var clos *Closure
		clos, cerr = r.CompileAndLoadLuaChunk("limits", []byte(src), TableValue(r.GlobalEnv()))
		if cerr == nil {
			term := NewTerminationWith(nil, 0, true)
			rerr = Call(t, FunctionValue(clos), []Value{IntValue(1)}, term)
			results = term.Etc()
		}
	}()
	verifAssert(!crashed, "no-go-panic-at-an-implementation-limit")
	if crashed || cerr != nil {
		verifReach("rejected-or-crashed")
		return
	}
	verifReach("compiled")
	verifAssert(rerr == nil && len(results) == 1, "compiled-chunk-runs")
	if rerr != nil || len(results) != 1 {
		return
	}
	switch which {
	case 0:
		verifAssert(vhSameValue(results[0], IntValue(299)), "accepted-chunk-computes-the-right-value")
	case 1:
		verifAssert(vhSameValue(results[0], StringValue("c0c299")), "accepted-chunk-computes-the-right-value")
	case 2:
		verifAssert(vhSameValue(results[0], IntValue(260)), "accepted-chunk-computes-the-right-value")
	case 3:
		verifAssert(vhSameValue(results[0], IntValue(1)), "accepted-chunk-computes-the-right-value")
	case 4:
		verifAssert(vhSameValue(results[0], IntValue(14001)), "accepted-chunk-computes-the-right-value")
	}
}

func vhItoa(i int) string {
	if i == 0 {
		return "0"
	}
	s := ""
	for i > 0 {
		s = string(rune('0'+i%10)) + s
		i /= 10
	}
	return s
}
