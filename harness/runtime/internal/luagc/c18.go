//go:build verif

package luagc

import "unsafe"

// C18 — finalisers and releases run exactly once, in order.  Bounded histories
// on the real ClonePool.  The Go collector is the environment: the harness
// replaces the package variable setFinalizer (normally runtime.SetFinalizer)
// by a recording function, and delivers a registered finalizer only for an
// object the program no longer references.  Mark flags are symbolic.

type vhVal struct {
	id  int
	key *int
}

func (v *vhVal) Key() Key     { return unsafe.Pointer(v.key) }
func (v *vhVal) Clone() Value { c := *v; return &c }

type vhFinReg struct {
	obj Value
	fin func(Value)
}

type vhWorld struct {
	pool     *ClonePool
	regs     []vhFinReg // objects with a Go finalizer registered
	marked   [2]bool    // currently marked for finalize / release (ghost)
	wantFin  [2]bool
	wantRel  [2]bool
	order    [2]int // mark order (ghost)
	clock    int
	finCount [2]int // times handed out for finalization since last Mark
	relCount [2]int
	dropped  [2]bool // the program dropped its reference to the original
	vals     [2]*vhVal
}

func (w *vhWorld) setFinalizer(obj, fin interface{}) {
	o := obj.(Value)
	for i := range w.regs {
		if w.regs[i].obj == o {
			if fin == nil {
				w.regs = append(w.regs[:i], w.regs[i+1:]...)
			} else {
				w.regs[i].fin = fin.(func(Value))
			}
			return
		}
	}
	if fin != nil {
		w.regs = append(w.regs, vhFinReg{o, fin.(func(Value))})
	}
}

func vhIdx(v Value) int { return v.(*vhVal).id }

// collect lets the Go GC run the finalizer of one unreachable object of value i
func (w *vhWorld) collect(i int) {
	for k := range w.regs {
		o := w.regs[k].obj.(*vhVal)
		if o.id != i {
			continue
		}
		if o == w.vals[i] && !w.dropped[i] {
			continue // the original is still referenced by the program
		}
		fin := w.regs[k].fin
		w.regs = append(w.regs[:k], w.regs[k+1:]...)
		fin(o)
		return
	}
}

func (w *vhWorld) handedOutFinalize(vs []Value, atClose bool) {
	last := 1 << 30
	for _, v := range vs {
		i := vhIdx(v)
		w.finCount[i]++
		verifAssert(w.finCount[i] <= 1, "finalised-at-most-once-per-marking")
		verifAssert(w.wantFin[i], "only-values-marked-for-finalisation")
		verifAssert(atClose || w.dropped[i], "never-finalised-while-still-referenced")
		verifAssert(w.order[i] < last, "reverse-order-of-marking")
		last = w.order[i]
	}
}

func (w *vhWorld) handedOutRelease(vs []Value) {
	last := 1 << 30
	for _, v := range vs {
		i := vhIdx(v)
		w.relCount[i]++
		verifAssert(w.relCount[i] <= 1, "released-at-most-once")
		verifAssert(w.wantRel[i], "only-values-marked-for-release")
		verifAssert(!w.wantFin[i] || w.finCount[i] == 1, "release-after-finaliser")
		verifAssert(w.order[i] < last, "release-in-reverse-order-of-marking")
		last = w.order[i]
	}
}

func VerifH_C18_clonepool_history() { vhClonePoolHistory(false) }

// the same histories starting from a pool in which both values are already
// marked (with symbolic flags), so that short histories reach the states where
// one value is pending (collected by the Go GC) while the other is still live
func VerifH_C18_clonepool_history_both_marked() { vhClonePoolHistory(true) }

func vhClonePoolHistory(premark bool) {
	w := &vhWorld{pool: NewClonePool()}
	saved := setFinalizer
	setFinalizer = w.setFinalizer
	defer func() { setFinalizer = saved }()
	for i := range w.vals {
		k := i
		w.vals[i] = &vhVal{id: i, key: &k}
	}
	n := 3
	if verifTier() == 1 {
		n = 4
	}
	if premark {
		for i := 0; i < 2; i++ {
			flags := MarkFlags(nondetByte("preflags")) & (Finalize | Release)
			verifAssume(flags != 0)
			w.pool.Mark(w.vals[i], flags)
			w.wantFin[i], w.wantRel[i] = flags&Finalize != 0, flags&Release != 0
			w.clock++
			w.order[i] = w.clock
		}
		n--
	}
	for step := 0; step < n; step++ {
		// one choice: {mark, drop, collect} x {value 0, value 1}, extract finalize, extract release
		c := verifChoose("op", 8)
		i := c % 2
		op := c / 2
		if c >= 6 {
			op = c - 3
		}
		switch op {
		case 0: // (re-)mark with symbolic flags
			if w.dropped[i] {
				continue // the program cannot mark a value it no longer has
			}
			flags := MarkFlags(nondetByte("flags")) & (Finalize | Release)
			w.pool.Mark(w.vals[i], flags)
			if flags == 0 {
				w.wantFin[i], w.wantRel[i] = false, false
			} else {
				w.wantFin[i], w.wantRel[i] = flags&Finalize != 0, flags&Release != 0
				w.clock++
				w.order[i] = w.clock
				w.finCount[i], w.relCount[i] = 0, 0
			}
		case 1: // the program drops its reference
			w.dropped[i] = true
		case 2: // the Go GC finalises one unreachable object of value i
			w.collect(i)
		case 3:
			w.handedOutFinalize(w.pool.ExtractPendingFinalize(), false)
		case 4:
			w.handedOutRelease(w.pool.ExtractPendingRelease())
		}
	}
	// closing the context / runtime
	w.handedOutFinalize(w.pool.ExtractAllMarkedFinalize(), true)
	w.handedOutRelease(w.pool.ExtractAllMarkedRelease())
	for i := 0; i < 2; i++ {
		if w.wantFin[i] {
			verifReach("marked-for-finalize")
			verifAssert(w.finCount[i] == 1, "finalised-exactly-once-by-close")
		}
		if w.wantRel[i] {
			verifReach("marked-for-release")
			verifAssert(w.relCount[i] == 1, "released-exactly-once-by-close")
		}
	}
	// a late Go finalizer after close is harmless
	w.collect(0)
	w.collect(1)
	verifAssert(w.pool.ExtractPendingFinalize() == nil && w.pool.ExtractPendingRelease() == nil, "nothing-pending-after-close")
}
