//go:build verif

package runtime

// C02 — numbers.  See DESIGN.md §3 C02.

// K2(ii): algebraic laws of mixed int/float comparison, no spec at all.
func VerifH_C02_trichotomy_int_float() {
	n, f := nondetInt64("n"), nondetFloat64("f")
	verifAssume(f == f) // non-NaN
	x, y := IntValue(n), FloatValue(f)
	lt, ok1 := isLessThan(x, y)
	gt, ok2 := isLessThan(y, x)
	eq, ok3 := RawEqual(x, y)
	verifAssert(ok1 && ok2 && ok3, "comparable")
	verifAssert(verifB2I(lt)+verifB2I(gt)+verifB2I(eq) == 1, "trichotomy")
}
