//go:build verif

package runtime

import "math"

// C02 — numbers.  See DESIGN.md §3 C02.  Every harness quantifies over all
// 2^64 bit patterns of each operand (ints: all int64; floats: all binary64,
// NaN, ±0, ±Inf included) unless a verifAssume says otherwise.

const vhTwo63 = 9223372036854775808.0

// vhSameNum: same Lua number (same subtype; floats bit-identical up to NaN).
func vhSameNum(a, b Value) bool {
	if a.NumberType() != b.NumberType() {
		return false
	}
	switch a.NumberType() {
	case IntType:
		return a.AsInt() == b.AsInt()
	case FloatType:
		x, y := a.AsFloat(), b.AsFloat()
		if x != x || y != y {
			return x != x && y != y
		}
		return math.Float64bits(x) == math.Float64bits(y)
	}
	return false
}

// ---- spec: exact comparison of an int64 with a float64 (no rounding) ----

// specLtIF: n < f mathematically.
func specLtIF(n int64, f float64) bool {
	if f != f {
		return false
	}
	if f >= vhTwo63 {
		return true
	}
	if f <= -vhTwo63 {
		return false // n >= -2^63 >= f
	}
	fl := math.Floor(f) // -2^63 < fl < 2^63: converts exactly
	i := int64(fl)
	if fl == f {
		return n < i
	}
	return n <= i
}

// specLtFI: f < n mathematically.
func specLtFI(f float64, n int64) bool {
	if f != f {
		return false
	}
	if f >= vhTwo63 {
		return false
	}
	if f < -vhTwo63 {
		return true
	}
	c := math.Ceil(f) // -2^63 <= c <= 2^63 - 1024 or so: converts exactly
	i := int64(c)
	if c == f {
		return i < n
	}
	return i <= n
}

// specEqIF: n == f mathematically.
func specEqIF(n int64, f float64) bool {
	if f != f || f >= vhTwo63 || f < -vhTwo63 {
		return false
	}
	if math.Floor(f) != f {
		return false
	}
	return int64(f) == n
}

// K2(ii): algebraic laws of mixed int/float comparison, no spec at all.
func VerifH_C02_trichotomy_int_float() {
	n, f := nondetInt64("n"), nondetFloat64("f")
	verifAssume(f == f) // non-NaN
	x, y := IntValue(n), FloatValue(f)
	lt, ok1 := isLessThan(x, y)
	gt, ok2 := isLessThan(y, x)
	eq, ok3 := RawEqual(x, y)
	verifAssert(ok1 && ok2 && ok3, "comparable")
	verifAssert(verifB2I(lt)+verifB2I(gt)+verifB2I(eq) == 1, "trichotomy")
}

// a<=b  <=>  a<b or a==b, for int/float and float/int; and le agrees with the exact spec.
func VerifH_C02_le_is_lt_or_eq() {
	n, f := nondetInt64("n"), nondetFloat64("f")
	x, y := IntValue(n), FloatValue(f)
	le1, err1 := le(nil, x, y)
	lt1, _ := isLessThan(x, y)
	eq1, _ := RawEqual(x, y)
	verifAssert(err1 == nil, "le-int-float-no-error")
	verifAssert(le1 == (lt1 || eq1), "le-int-float")
	le2, err2 := le(nil, y, x)
	lt2, _ := isLessThan(y, x)
	verifAssert(err2 == nil, "le-float-int-no-error")
	verifAssert(le2 == (lt2 || eq1), "le-float-int")
	eq2, _ := RawEqual(y, x)
	verifAssert(eq1 == eq2, "eq-symmetric")
}

// K2(i): exactness against the no-rounding spec.
func VerifH_C02_lt_exact() {
	n, f := nondetInt64("n"), nondetFloat64("f")
	x, y := IntValue(n), FloatValue(f)
	lt1, _ := isLessThan(x, y)
	verifAssert(lt1 == specLtIF(n, f), "lt-int-float-exact")
	lt2, _ := isLessThan(y, x)
	verifAssert(lt2 == specLtFI(f, n), "lt-float-int-exact")
	eq, _ := RawEqual(x, y)
	verifAssert(eq == specEqIF(n, f), "eq-int-float-exact")
	verifAssert(numIsLessThan(x, y) == lt1 && numIsLessThan(y, x) == lt2, "numIsLessThan-agrees")
	le1, _ := le(nil, x, y)
	verifAssert(le1 == (specLtIF(n, f) || specEqIF(n, f)), "le-int-float-exact")
	le2, _ := le(nil, y, x)
	verifAssert(le2 == (specLtFI(f, n) || specEqIF(n, f)), "le-float-int-exact")
}

func VerifH_C02_cmp_same_type() {
	a, b := nondetInt64("a"), nondetInt64("b")
	lt, ok := isLessThan(IntValue(a), IntValue(b))
	verifAssert(ok && lt == (a < b), "lt-int-int")
	leq, err := le(nil, IntValue(a), IntValue(b))
	verifAssert(err == nil && leq == (a <= b), "le-int-int")
	eq, ok2 := RawEqual(IntValue(a), IntValue(b))
	verifAssert(eq == (a == b) && (ok2 || !eq), "eq-int-int")
	f, g := nondetFloat64("f"), nondetFloat64("g")
	lt2, ok3 := isLessThan(FloatValue(f), FloatValue(g))
	verifAssert(ok3 && lt2 == (f < g), "lt-float-float")
	le2, err2 := le(nil, FloatValue(f), FloatValue(g))
	verifAssert(err2 == nil && le2 == (f <= g), "le-float-float")
	eq2, _ := RawEqual(FloatValue(f), FloatValue(g))
	verifAssert(eq2 == (f == g), "eq-float-float")
	verifAssert(FloatValue(f).Equals(FloatValue(g)) == (f == g), "Equals-float")
	verifAssert(IntValue(a).Equals(IntValue(b)) == (a == b), "Equals-int")
	verifAssert(!IntValue(a).Equals(FloatValue(f)), "Equals-int-float-distinct-types")
}

// ---- K1 arithmetic ----

func VerifH_C02_arith_int_int() {
	a, b := nondetInt64("a"), nondetInt64("b")
	x, y := IntValue(a), IntValue(b)
	r, ok := Add(x, y)
	verifAssert(ok && vhSameNum(r, IntValue(a+b)), "add")
	r, ok = Sub(x, y)
	verifAssert(ok && vhSameNum(r, IntValue(a-b)), "sub")
	r, ok = Mul(x, y)
	verifAssert(ok && vhSameNum(r, IntValue(a*b)), "mul")
	r, ok = Div(x, y)
	verifAssert(ok && vhSameNum(r, FloatValue(float64(a)/float64(b))), "div-is-float")
	r, ok = Unm(x)
	verifAssert(ok && vhSameNum(r, IntValue(-a)), "unm")
	r, ok = Pow(x, y)
	verifAssert(ok && r.NumberType() == FloatType, "pow-is-float")
}

// floor division and modulo of integers against the textbook reference:
// truncated quotient/remainder, adjusted when the remainder is non-zero and
// has the sign opposite to the divisor.
func specFloorDivMod(a, b int64) (int64, int64) {
	q, r := a/b, a%b
	if r != 0 && (r^b) < 0 {
		q, r = q-1, r+b
	}
	return q, r
}

func VerifH_C02_idiv_mod_int() {
	a, b := nondetInt64("a"), nondetInt64("b")
	x, y := IntValue(a), IntValue(b)
	qv, ok, err := Idiv(x, y)
	rv, ok2, err2 := Mod(x, y)
	verifAssert(ok && ok2, "numbers")
	if b == 0 {
		verifReach("div-by-zero")
		verifAssert(err != nil && err2 != nil, "zero-divisor-is-error")
		return
	}
	verifAssert(err == nil && err2 == nil, "no-error")
	verifAssert(qv.NumberType() == IntType && rv.NumberType() == IntType, "int-results")
	q, r := qv.AsInt(), rv.AsInt()
	sq, sr := specFloorDivMod(a, b)
	verifAssert(q == sq, "floor-quotient")
	verifAssert(r == sr, "floor-remainder")
}

// The same operations against the algebraic definition (q*b + r == a with
// r in [0,b) or (b,0], computed without wrap-around in 128 bits), which does not trust
// Go's '/' and '%'.  64x64-bit symbolic multiplication/division is out of
// reach of the SMT back ends (DESIGN 2.10), so the divisor is case-split into
// concrete values (one path each): every b with 1 <= |b| <= 16 in the quick
// tier, plus ±(2^k), ±(2^k±1) for all k, ±10^k and the extremes in thorough.
// The dividend is any int64.
func vhDivisor() int64 {
	n := 32
	if verifTier() == 1 {
		n = 32 + 2*(62*3+19+2)
	}
	i := verifChoose("divisor", n)
	sign := int64(1)
	if i%2 == 1 {
		sign = -1
	}
	i /= 2
	if i < 16 {
		return sign * int64(i+1)
	}
	i -= 16
	if i < 62*3 {
		p := int64(1) << uint(i/3+1)
		return sign * (p + int64(i%3) - 1)
	}
	i -= 62 * 3
	if i < 19 {
		p := int64(1)
		for k := 0; k < i; k++ {
			p *= 10
		}
		return sign * p
	}
	if i == 19 {
		return math.MaxInt64 * sign
	}
	return math.MinInt64
}

func VerifH_C02_idiv_mod_int_algebraic() {
	a := nondetInt64("a")
	b := vhDivisor()
	qv, _, _ := Idiv(IntValue(a), IntValue(b))
	rv, _, _ := Mod(IntValue(a), IntValue(b))
	q, r := qv.AsInt(), rv.AsInt()
	if a == math.MinInt64 && b == -1 {
		verifReach("minint-by-minus-one")
		verifAssert(q == math.MinInt64 && r == 0, "minint//-1 wraps")
		return
	}
	// a == q*b + r in the integers (128-bit arithmetic, no wrap-around)
	verifAssert(verifMulAddEqInt64(q, b, r, a), "a == q*b + r in Z")
	if b > 0 {
		verifAssert(0 <= r && r < b, "0 <= r < b")
	} else {
		verifAssert(b < r && r <= 0, "b < r <= 0")
	}
}

func VerifH_C02_arith_mixed() {
	a, f := nondetInt64("a"), nondetFloat64("f")
	x, y := IntValue(a), FloatValue(f)
	fa := float64(a)
	r, ok := Add(x, y)
	verifAssert(ok && vhSameNum(r, FloatValue(fa+f)), "add-if")
	r, ok = Add(y, x)
	verifAssert(ok && vhSameNum(r, FloatValue(f+fa)), "add-fi")
	r, ok = Sub(x, y)
	verifAssert(ok && vhSameNum(r, FloatValue(fa-f)), "sub-if")
	r, ok = Sub(y, x)
	verifAssert(ok && vhSameNum(r, FloatValue(f-fa)), "sub-fi")
	r, ok = Mul(x, y)
	verifAssert(ok && vhSameNum(r, FloatValue(fa*f)), "mul-if")
	r, ok = Div(x, y)
	verifAssert(ok && vhSameNum(r, FloatValue(fa/f)), "div-if")
	r, ok = Div(y, x)
	verifAssert(ok && vhSameNum(r, FloatValue(f/fa)), "div-fi")
	r, ok = Unm(y)
	verifAssert(ok && vhSameNum(r, FloatValue(-f)), "unm-f")
	var err error
	r, ok, err = Idiv(x, y)
	verifAssert(ok && err == nil && vhSameNum(r, FloatValue(math.Floor(fa/f))), "idiv-if")
	r, ok, err = Idiv(y, x)
	verifAssert(ok && err == nil && vhSameNum(r, FloatValue(math.Floor(f/fa))), "idiv-fi")
}

func VerifH_C02_arith_float_float() {
	f, g := nondetFloat64("f"), nondetFloat64("g")
	x, y := FloatValue(f), FloatValue(g)
	r, ok := Add(x, y)
	verifAssert(ok && vhSameNum(r, FloatValue(f+g)), "add")
	r, ok = Sub(x, y)
	verifAssert(ok && vhSameNum(r, FloatValue(f-g)), "sub")
	r, ok = Mul(x, y)
	verifAssert(ok && vhSameNum(r, FloatValue(f*g)), "mul")
	r, ok = Div(x, y)
	verifAssert(ok && vhSameNum(r, FloatValue(f/g)), "div")
	r, ok, err := Idiv(x, y)
	verifAssert(ok && err == nil && vhSameNum(r, FloatValue(math.Floor(f/g))), "idiv")
}

// float modulo: sign follows the divisor, |r| < |y|, r is fmod(x,y) or fmod(x,y)+y.
func VerifH_C02_mod_float() {
	f, g := nondetFloat64("f"), nondetFloat64("g")
	verifAssume(f == f && g == g && !math.IsInf(f, 0) && !math.IsInf(g, 0) && g != 0)
	rv, ok, err := Mod(FloatValue(f), FloatValue(g))
	verifAssert(ok && err == nil && rv.NumberType() == FloatType, "float-result")
	r := rv.AsFloat()
	verifAssert(r == r, "not-nan")
	// |r| <= |g|: r == g happens through rounding of fmod(x,y)+y for tiny
	// fmod results (e.g. -4.9e-324 % 1.0000000000000002), exactly as in PUC
	// Lua's luai_nummod; the manual's real-number definition gives |r| < |g|.
	verifAssert(math.Abs(r) <= math.Abs(g), "abs(r) <= abs(g)")
	verifAssert(r == 0 || (r < 0) == (g < 0), "sign-of-divisor")
	m := math.Mod(f, g)
	verifAssert(r == m || r == m+g, "fmod-or-fmod-plus-divisor")
}

func VerifH_C02_arith_non_numbers() {
	a := nondetInt64("a")
	x := IntValue(a)
	var others [3]Value
	others[0] = NilValue
	others[1] = BoolValue(nondetBool("b"))
	others[2] = StringValue("10")
	k := verifChoose("kind", 3)
	o := others[k]
	_, ok := Add(x, o)
	verifAssert(!ok, "add-non-number")
	_, ok = Sub(o, x)
	verifAssert(!ok, "sub-non-number")
	_, ok = Mul(x, o)
	verifAssert(!ok, "mul-non-number")
	_, ok = Div(o, x)
	verifAssert(!ok, "div-non-number")
	_, ok, _ = Idiv(x, o)
	verifAssert(!ok, "idiv-non-number")
	_, ok, _ = Mod(o, x)
	verifAssert(!ok, "mod-non-number")
	_, ok = Pow(x, o)
	verifAssert(!ok, "pow-non-number")
	_, ok = Unm(o)
	verifAssert(!ok, "unm-non-number")
	_, ok = isLessThan(x, o)
	verifAssert(!ok, "lt-non-number")
}

// ---- K3 conversions ----

func specFloatIsInt(f float64) bool {
	return f == f && f >= -vhTwo63 && f < vhTwo63 && math.Floor(f) == f
}

func VerifH_C02_float_to_int() {
	f := nondetFloat64("f")
	n, tp := FloatToInt(f)
	isInt := specFloatIsInt(f)
	verifAssert((tp == IsInt) == isInt, "converts-iff-exact-integer")
	if isInt {
		verifReach("integral")
		verifAssert(float64(n) == f, "value-preserved")
	} else {
		verifReach("not-integral")
	}
	n2, ok2 := ToInt(FloatValue(f))
	verifAssert(ok2 == isInt && (!ok2 || n2 == n), "ToInt")
	n3, ok3 := ToIntNoString(FloatValue(f))
	verifAssert(ok3 == isInt && (!ok3 || n3 == n), "ToIntNoString")
	g, okf := ToFloat(FloatValue(f))
	verifAssert(okf && (g == f || (g != g && f != f)), "ToFloat-float")
	a := nondetInt64("a")
	n4, ok4 := ToInt(IntValue(a))
	verifAssert(ok4 && n4 == a, "ToInt-int")
	g2, okf2 := ToFloat(IntValue(a))
	verifAssert(okf2 && g2 == float64(a), "ToFloat-int")
	v, nt := ToNumberValue(FloatValue(f))
	verifAssert(nt == IsFloat && vhSameNum(v, FloatValue(f)), "ToNumberValue-float")
	v, nt = ToNumberValue(IntValue(a))
	verifAssert(nt == IsInt && vhSameNum(v, IntValue(a)), "ToNumberValue-int")
}

// ---- K4 bitwise ----

func specShl(x, n int64) int64 {
	if n <= -64 || n >= 64 {
		return 0
	}
	if n >= 0 {
		return int64(uint64(x) << uint(n))
	}
	return int64(uint64(x) >> uint(-n))
}

func VerifH_C02_bitwise_int() {
	a, b := nondetInt64("a"), nondetInt64("b")
	x, y := IntValue(a), IntValue(b)
	r, err := band(nil, x, y)
	verifAssert(err == nil && vhSameNum(r, IntValue(a&b)), "band")
	r, err = bor(nil, x, y)
	verifAssert(err == nil && vhSameNum(r, IntValue(a|b)), "bor")
	r, err = bxor(nil, x, y)
	verifAssert(err == nil && vhSameNum(r, IntValue(a^b)), "bxor")
	r, err = bnot(nil, x)
	verifAssert(err == nil && vhSameNum(r, IntValue(^a)), "bnot")
	r, err = shl(nil, x, y)
	verifAssert(err == nil && vhSameNum(r, IntValue(specShl(a, b))), "shl")
	r, err = shr(nil, x, y)
	if b == math.MinInt64 {
		verifAssert(err == nil && vhSameNum(r, IntValue(0)), "shr-by-minint")
	} else {
		verifAssert(err == nil && vhSameNum(r, IntValue(specShl(a, -b))), "shr")
	}
}

// floats with an exact integer value are accepted by bitwise operators and
// converted exactly.
func VerifH_C02_bitwise_float_operand() {
	a, f := nondetInt64("a"), nondetFloat64("f")
	verifAssume(specFloatIsInt(f))
	fi := int64(f)
	r, err := band(nil, IntValue(a), FloatValue(f))
	verifAssert(err == nil && vhSameNum(r, IntValue(a&fi)), "band-float")
	r, err = bxor(nil, FloatValue(f), IntValue(a))
	verifAssert(err == nil && vhSameNum(r, IntValue(fi^a)), "bxor-float")
	r, err = shl(nil, IntValue(a), FloatValue(f))
	verifAssert(err == nil && vhSameNum(r, IntValue(specShl(a, fi))), "shl-float-count")
	r, err = bnot(nil, FloatValue(f))
	verifAssert(err == nil && vhSameNum(r, IntValue(^fi)), "bnot-float")
}
