//go:build verif

package runtime

import "github.com/arnodel/golua/code"

// Shared helpers: a real Runtime/Thread and hand-assembled LuaConts whose
// registers hold symbolic Lua values.

// vhNewRuntime creates a runtime exactly as an embedder would (runtime.New).
func vhNewRuntime() (*Runtime, *Thread) {
	r := New(nil)
	return r, r.MainThread()
}

// vhNewCont assembles a continuation running ops followed by "call r0" where
// r0 holds a Termination expecting nres results.
func vhNewCont(t *Thread, ops []code.Opcode, nregs, ncells int, consts []Value, nres int) (*LuaCont, *Termination) {
	ops = append(ops, code.Call(code.ValueReg(0)))
	c := &Code{source: "verif", name: "harness", code: ops, lines: make([]int32, len(ops)), consts: consts,
		RegCount: int16(nregs), CellCount: int16(ncells)}
	clos := NewClosure(t.Runtime, c)
	term := NewTerminationWith(nil, nres, false)
	return NewLuaCont(t, clos, term), term
}

// vhNumber returns a symbolic Lua number: integer or float as chosen.
func vhNumber(name string, float bool) Value {
	if float {
		return FloatValue(nondetFloat64(name + "_f"))
	}
	return IntValue(nondetInt64(name + "_i"))
}
