//go:build verif

package runtime

import (
	"bytes"
	"math"
)

// C13 — marshalling of constants: every constant value a compiled function can
// hold survives MarshalConst / UnmarshalConst with its type, subtype and exact
// value (all int64, all binary64 bit patterns including -0, inf and nan
// payloads, strings of every content up to 3 bytes), and marshalling is
// deterministic.

func vhArbitraryConst(pfx string) Value {
	switch verifChoose(pfx+"kind", 3) {
	case 0:
		return IntValue(nondetInt64(pfx + "i"))
	case 1:
		return FloatValue(nondetFloat64(pfx + "f"))
	}
	n := verifChoose(pfx+"len", 4)
	return StringValue(nondetString(pfx+"s", n))
}

func vhSameConst(a, b Value) bool {
	if a.Type() != b.Type() {
		return false
	}
	switch a.Type() {
	case IntType:
		return a.AsInt() == b.AsInt()
	case FloatType:
		x, y := a.AsFloat(), b.AsFloat()
		return (x != x && y != y) || (x == y && math.Signbit(x) == math.Signbit(y))
	case StringType:
		return a.AsString() == b.AsString()
	}
	return false
}

func VerifH_C13_const_roundtrip() {
	c := vhArbitraryConst("c_")
	var w1, w2 bytes.Buffer
	_, err1 := MarshalConst(&w1, c, 0)
	_, err2 := MarshalConst(&w2, c, 0)
	verifAssert(err1 == nil && err2 == nil, "marshal-succeeds")
	verifAssert(bytes.Equal(w1.Bytes(), w2.Bytes()), "marshal-deterministic")
	v, _, err := UnmarshalConst(bytes.NewBuffer(w1.Bytes()), 0)
	verifAssert(err == nil, "unmarshal-succeeds")
	verifAssert(vhSameConst(v, c), "constant-survives-with-type-subtype-and-value")
	// marshal(unmarshal(d)) == d
	var w3 bytes.Buffer
	_, err3 := MarshalConst(&w3, v, 0)
	verifAssert(err3 == nil && bytes.Equal(w3.Bytes(), w1.Bytes()), "dump-of-reloaded-constant-identical")
	verifReach("roundtrip-done")
}
