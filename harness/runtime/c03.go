//go:build verif

package runtime

// C03 — tables.  Bounded histories on the real Table API with symbolic keys,
// checked after every step against a reference association list with
// normalised keys (a float with an exact integer value denotes that integer).

// ---- reference model ----

func vhNormKey(k Value) Value {
	if f, ok := k.TryFloat(); ok {
		if specFloatIsInt(f) {
			return IntValue(int64(f))
		}
	}
	return k
}

// vhKeyEq: key equality of the manual on normalised keys.
func vhKeyEq(a, b Value) bool {
	if a.Type() != b.Type() {
		return false
	}
	switch a.Type() {
	case IntType:
		return a.AsInt() == b.AsInt()
	case FloatType:
		return a.AsFloat() == b.AsFloat()
	case BoolType:
		return a.AsBool() == b.AsBool()
	case StringType:
		return a.AsString() == b.AsString()
	case TableType:
		return a.AsTable() == b.AsTable()
	}
	return false
}

func vhSameValue(a, b Value) bool {
	if a.IsNil() || b.IsNil() {
		return a.IsNil() && b.IsNil()
	}
	return vhKeyEq(a, b)
}

const vhRefCap = 8

type vhRef struct {
	keys [vhRefCap]Value
	vals [vhRefCap]Value
	n    int
}

func (r *vhRef) find(k Value) int {
	for i := 0; i < r.n; i++ {
		if vhKeyEq(r.keys[i], k) {
			return i
		}
	}
	return -1
}

func (r *vhRef) get(k Value) Value {
	if i := r.find(vhNormKey(k)); i >= 0 {
		return r.vals[i]
	}
	return NilValue
}

func (r *vhRef) set(k, v Value) {
	k = vhNormKey(k)
	i := r.find(k)
	if v.IsNil() {
		if i >= 0 {
			r.n--
			r.keys[i], r.vals[i] = r.keys[r.n], r.vals[r.n]
		}
		return
	}
	if i >= 0 {
		r.vals[i] = v
		return
	}
	r.keys[r.n], r.vals[r.n] = k, v
	r.n++
}

// ---- symbolic keys ----

var vhTabA, vhTabB = NewTable(), NewTable()

// vhKey returns a key of a symbolically chosen kind.
func vhKey(tag string) Value {
	switch verifChoose(tag+"_kind", 7) {
	case 0:
		// integer keys: symbolic inside the classes that matter to the array /
		// hash split (small positive, around zero), and extreme constants
		i := nondetInt64(tag + "_i")
		switch verifChoose(tag+"_ic", 3) {
		case 0:
			verifAssume(i >= 1 && i <= 6)
		case 1:
			verifAssume(i >= -1 && i <= 0)
		default:
			return IntValue([4]int64{9223372036854775807, -9223372036854775808, 9007199254740992, 1 << 31}[verifChoose(tag+"_ix", 4)])
		}
		return IntValue(i)
	case 1: // float with an integer value (concrete representatives: the
		// normalisation FloatToInt is decided for all floats by C02)
		return FloatValue([6]float64{1.0, 2.0, 3.0, 9007199254740992.0, -1.0, 0.0}[verifChoose(tag+"_fi", 6)])
	case 2: // fractional float
		return FloatValue([3]float64{0.5, 1.5, -2.5}[verifChoose(tag+"_ff", 3)])
	case 3:
		return StringValue(nondetString(tag+"_s", 1))
	case 4: // longer than the 7-byte scalar representation
		return StringValue("longkey-" + nondetString(tag+"_ls", 1))
	case 5:
		return BoolValue(nondetBool(tag + "_b"))
	}
	if nondetBool(tag + "_t") {
		return TableValue(vhTabA)
	}
	return TableValue(vhTabB)
}

func vhCheckTable(t *Table, ref *vhRef, probes []Value) {
	for _, k := range probes {
		verifAssert(vhSameValue(t.Get(k), ref.get(k)), "get-agrees-with-reference")
	}
	n := t.Len()
	verifAssert(n >= 0, "len-non-negative")
	if n > 0 {
		verifAssert(!ref.get(IntValue(n)).IsNil(), "border: t[n] ~= nil")
	}
	verifAssert(ref.get(IntValue(n+1)).IsNil(), "border: t[n+1] == nil")
}

// H1: k operations from the empty table.
func VerifH_C03_history() {
	k := 2
	if verifTier() == 1 {
		k = 3
	}
	t := NewTable()
	ref := &vhRef{}
	var probes []Value
	for step := 0; step < k; step++ {
		key := vhKey("k")
		probes = append(probes, key)
		op := verifChoose("op", 3)
		switch op {
		case 0: // t[key] = v
			v := IntValue(int64(100 + step))
			t.Set(key, v)
			ref.set(key, v)
		case 1: // t[key] = nil
			t.Set(key, NilValue)
			ref.set(key, NilValue)
		case 2: // Reset: assign only if present
			v := IntValue(int64(200 + step))
			was := t.Reset(key, v)
			present := !ref.get(key).IsNil()
			verifAssert(was == present, "reset-reports-presence")
			if present {
				ref.set(key, v)
			}
		}
		vhCheckTable(t, ref, probes)
	}
}

// value equality and key equality agree: Value.Equals <=> manual key equality
// for every pair of (normalised) keys; equal keys hash equally.
func VerifH_C03_equals_consistent() {
	a, b := vhKey("a"), vhKey("b")
	na, nb := vhNormKey(a), vhNormKey(b)
	verifAssert(na.Equals(nb) == vhKeyEq(na, nb), "Equals-iff-key-equality")
	if vhKeyEq(na, nb) {
		verifReach("equal-keys")
		verifAssert(na.Hash() == nb.Hash(), "equal-keys-hash-equally")
	}
	// raw equality between an int and the float with the same value
	eq, _ := RawEqual(a, b)
	if a.NumberType() != UnknownType && b.NumberType() != UnknownType {
		verifAssert(eq == vhKeyEq(na, nb), "RawEqual-numbers-iff-same-normalised-key")
	}
}

// a sequence built by appending 1..n has length n, also after clearing the top
func VerifH_C03_sequence_border() {
	n := verifChoose("n", 7)
	t := NewTable()
	for i := 1; i <= n; i++ {
		t.Set(IntValue(int64(i)), IntValue(int64(i)))
	}
	verifAssert(t.Len() == int64(n), "len-of-sequence")
	drop := verifChoose("drop", 3)
	for i := 0; i < drop && n-i >= 1; i++ {
		t.Set(IntValue(int64(n-i)), NilValue)
	}
	m := n - drop
	if m < 0 {
		m = 0
	}
	verifAssert(t.Len() == int64(m), "len-after-clearing-top")
	extra := nondetInt64("extra")
	verifAssume(extra > int64(n)+1 || extra < 1)
	t.Set(IntValue(extra), BoolValue(true))
	// any border is acceptable once the table is not a sequence
	l := t.Len()
	verifAssert(l >= 0 && (l == 0 || !t.Get(IntValue(l)).IsNil()) && t.Get(IntValue(l+1)).IsNil(), "len-is-a-border")
	verifAssert(vhSameValue(t.Get(IntValue(extra)), BoolValue(true)), "distant-key-stored")
	for i := 1; i <= m; i++ {
		verifAssert(vhSameValue(t.Get(IntValue(int64(i))), IntValue(int64(i))), "sequence-intact")
	}
}

// H2: traversal with next while existing fields are cleared or re-assigned
// (allowed by the manual): every key present at the start is visited exactly
// once; next never rejects the key it just returned.  The hash part holds 0-4
// keys (so that it is exactly full for 1, 2 and 4), including the integer keys
// 0 and 2^40; existing fields are re-assigned through the key returned by next
// or through an equal key of another type (the float 2^40).
var vhBigKey = int64(1) << 40

func VerifH_C03_traversal_with_updates() {
	n := verifChoose("n", 4) // 0..3 array entries
	t := NewTable()
	for i := 1; i <= n; i++ {
		t.Set(IntValue(int64(i)), IntValue(int64(10*i)))
	}
	// hash-part keys, chosen as a subset in a fixed order
	var hk [5]Value
	nh := 0
	mask := verifChoose("hashmask", 32)
	cands := [5]Value{StringValue("x"), FloatValue(0.5), IntValue(vhBigKey), IntValue(0), BoolValue(true)}
	for b := 0; b < 5; b++ {
		if mask&(1<<uint(b)) != 0 {
			t.Set(cands[b], IntValue(int64(1000+b)))
			hk[nh] = cands[b]
			nh++
		}
	}
	total := n + nh
	var seenInt [5]bool
	var seenH [5]bool
	visited := 0
	bigPresent := mask&4 != 0
	k := NilValue
	for step := 0; step <= total+1; step++ {
		nk, v, ok := t.Next(k)
		verifAssert(ok, "next-accepts-the-key-it-returned")
		if !ok {
			return
		}
		if nk.IsNil() {
			break
		}
		visited++
		verifAssert(visited <= total, "traversal-terminates")
		if visited > total {
			return
		}
		verifAssert(!v.IsNil(), "visited-key-has-a-value")
		matched := false
		if i, isInt := nk.TryInt(); isInt && i >= 1 && i <= int64(n) {
			verifAssert(!seenInt[i], "array-key-visited-once")
			seenInt[i] = true
			matched = true
		}
		for h := 0; h < nh && !matched; h++ {
			if vhKeyEq(vhNormKey(hk[h]), vhNormKey(nk)) {
				verifAssert(!seenH[h], "hash-key-visited-once")
				seenH[h] = true
				matched = true
			}
		}
		verifAssert(matched, "only-present-keys-visited")
		upd := 0
		if step < 3 {
			upd = verifChoose("update", 4) // updates during the first three visits
		}
		switch upd {
		case 1:
			t.Set(nk, NilValue) // clear the field just visited
			if i, isInt := nk.TryInt(); isInt && i == vhBigKey {
				bigPresent = false
			}
		case 2:
			t.Set(nk, IntValue(7)) // assign to the field just visited
		case 3:
			// assign to an existing field through an equal key of another type
			if bigPresent {
				t.Set(FloatValue(float64(vhBigKey)), IntValue(8))
			}
		}
		k = nk
	}
	verifAssert(visited == total, "every-key-visited-exactly-once")
}

// filling positions 1..n in any rotation / direction / interleaving (so that
// keys sit in the hash part first and migrate to the array part when it grows,
// several at a time and in any slot order): afterwards every key reads back
// its (symbolic) value, the length is n, a traversal visits every key exactly
// once, and clearing any one key really removes it and leaves a border.
func VerifH_C03_fill_orders_and_migration() {
	n := 4 + verifChoose("n", 6) // 4..9 keys
	start := verifChoose("start", n)
	pattern := verifChoose("pattern", 4) // 0 ascending, 1 descending rotation, 2 odd-then-even, 3 outside-in
	vals := make([]Value, n+1)
	for i := 1; i <= n; i++ {
		vals[i] = IntValue(nondetInt64("v"))
	}
	order := make([]int, 0, n)
	switch pattern {
	case 0:
		for i := 0; i < n; i++ {
			order = append(order, (start+i)%n+1)
		}
	case 1:
		for i := 0; i < n; i++ {
			order = append(order, (start+n-i)%n+1)
		}
	case 2:
		for i := 1; i <= n; i += 2 {
			order = append(order, (start+i-1)%n+1)
		}
		for i := 2; i <= n; i += 2 {
			order = append(order, (start+i-1)%n+1)
		}
	case 3:
		for lo, hi := 1, n; lo <= hi; lo, hi = lo+1, hi-1 {
			order = append(order, (start+hi-1)%n+1)
			if lo != hi {
				order = append(order, (start+lo-1)%n+1)
			}
		}
	}
	t := NewTable()
	for _, k := range order {
		t.Set(IntValue(int64(k)), vals[k])
	}
	for i := 1; i <= n; i++ {
		verifAssert(vhSameValue(t.Get(IntValue(int64(i))), vals[i]), "every-key-reads-back")
	}
	verifAssert(t.Len() == int64(n), "length-of-the-filled-sequence")
	seen := make([]int, n+1)
	count := 0
	k := NilValue
	for {
		nk, v, ok := t.Next(k)
		verifAssert(ok, "next-accepts-its-own-key")
		if !ok || nk.IsNil() || count > n+1 {
			break
		}
		count++
		if i, isInt := nk.TryInt(); isInt && i >= 1 && i <= int64(n) {
			seen[i]++
			verifAssert(vhSameValue(v, vals[i]), "traversal-yields-the-stored-value")
		}
		k = nk
	}
	verifAssert(count == n, "traversal-visits-n-keys")
	for i := 1; i <= n; i++ {
		verifAssert(seen[i] == 1, "every-key-visited-exactly-once")
	}
	// drain the table completely, from the front, from the back, or starting
	// in the middle: after every removal the key is gone, the others are
	// intact and the length is a border
	dir := verifChoose("drain", 3)
	first := 1 + verifChoose("drop", n)
	gone := make([]bool, n+1)
	for step := 0; step < n; step++ {
		var k int
		switch dir {
		case 0:
			k = (first-1+step)%n + 1
		case 1:
			k = (first-1+n-step)%n + 1
		default:
			k = step + 1 // front to back (a queue)
		}
		t.Set(IntValue(int64(k)), NilValue)
		gone[k] = true
		for i := 1; i <= n; i++ {
			if gone[i] {
				verifAssert(t.Get(IntValue(int64(i))).IsNil(), "cleared-key-is-gone")
			} else {
				verifAssert(vhSameValue(t.Get(IntValue(int64(i))), vals[i]), "other-keys-intact-after-clearing")
			}
		}
		l := t.Len()
		verifAssert(l >= 0 && l <= int64(n) && (l == 0 || !t.Get(IntValue(l)).IsNil()) && t.Get(IntValue(l+1)).IsNil(), "length-is-a-border-after-clearing")
	}
	verifAssert(t.Len() == 0, "empty-table-has-length-0")
}
