//go:build verif

package runtime

// C12 — front end.  K1/K5: operator precedence and associativity as a
// metamorphic property through the REAL scanner/parser/compiler/VM: the chunk
// "return a OP1 b OP2 c" must behave exactly like the explicitly parenthesised
// spelling that the manual's precedence table prescribes, for every pair of
// binary operators and all (symbolic) integer operands; same for unary
// operators against binary ones.

var vhBinOps = [21]string{"or", "and", "<", "<=", ">", ">=", "==", "~=", "|", "~", "&", "<<", ">>", "..", "+", "-", "*", "/", "//", "%", "^"}

// precedence levels of the manual (higher binds tighter); unary operators are 10
var vhBinPrec = [21]int{0, 1, 2, 2, 2, 2, 2, 2, 3, 4, 5, 6, 6, 7, 8, 8, 9, 9, 9, 9, 11}

func vhRightAssoc(op int) bool { return vhBinOps[op] == ".." || vhBinOps[op] == "^" }

// vhOutcome runs a chunk with three arguments and returns (results, failed).
func vhOutcome(src string, a, b, c Value) ([]Value, bool) {
	_, res, err := vhRunChunk(src, a, b, c)
	return res, err != nil
}

func vhSameOutcome(r1 []Value, f1 bool, r2 []Value, f2 bool) bool {
	if f1 != f2 {
		return false
	}
	if f1 {
		return true
	}
	if len(r1) != len(r2) {
		return false
	}
	for i := range r1 {
		x, y := r1[i], r2[i]
		if x.Type() == FloatType && y.Type() == FloatType {
			if !vhSameNum(x, y) {
				return false
			}
		} else if !vhSameValue(x, y) {
			return false
		}
	}
	return true
}

func vhOperands(concrete bool) (Value, Value, Value) {
	if concrete {
		return IntValue(1), IntValue(2), IntValue(3)
	}
	return IntValue(nondetInt64("a")), IntValue(nondetInt64("b")), IntValue(nondetInt64("c"))
}

func VerifH_C12_binary_precedence() {
	n := 21
	pair := verifChoose("pair", n*n)
	o1, o2 := pair/n, pair%n
	op1, op2 := vhBinOps[o1], vhBinOps[o2]
	// concatenation turns numbers into text (strconv): concrete operands there
	a, b, c := vhOperands(op1 == ".." || op2 == "..")
	hdr := "local a, b, c = ... return "
	plain := hdr + "a " + op1 + " b " + op2 + " c"
	var spec string
	if vhBinPrec[o2] > vhBinPrec[o1] || (vhBinPrec[o2] == vhBinPrec[o1] && vhRightAssoc(o1)) {
		spec = hdr + "a " + op1 + " (b " + op2 + " c)"
	} else {
		spec = hdr + "(a " + op1 + " b) " + op2 + " c"
	}
	r1, f1 := vhOutcome(plain, a, b, c)
	r2, f2 := vhOutcome(spec, a, b, c)
	verifAssert(vhSameOutcome(r1, f1, r2, f2), "same-as-the-manuals-parenthesisation")
}

var vhUnOps = [4]string{"-", "not ", "#", "~"}

func VerifH_C12_unary_precedence() {
	u := verifChoose("unop", 4)
	o := verifChoose("binop", 21)
	un, op := vhUnOps[u], vhBinOps[o]
	a, b, c := vhOperands(op == "..")
	hdr := "local a, b, c = ... return "
	// unary binds tighter than every binary operator except '^'
	plain := hdr + un + "a " + op + " b"
	spec := hdr + "(" + un + "a) " + op + " b"
	if op == "^" {
		spec = hdr + un + "(a " + op + " b)"
	}
	r1, f1 := vhOutcome(plain, a, b, c)
	r2, f2 := vhOutcome(spec, a, b, c)
	verifAssert(vhSameOutcome(r1, f1, r2, f2), "unary-vs-binary")
	// on the right-hand side of a binary operator
	plain = hdr + "a " + op + " " + un + "b"
	spec = hdr + "a " + op + " (" + un + "b)"
	r1, f1 = vhOutcome(plain, a, b, c)
	r2, f2 = vhOutcome(spec, a, b, c)
	verifAssert(vhSameOutcome(r1, f1, r2, f2), "binary-then-unary")
}

// numeral spellings denote the same number (decimal / hex / float forms)
func VerifH_C12_literal_spellings() {
	k := verifChoose("case", 14)
	var s1, s2 string
	switch k {
	case 0:
		s1, s2 = "255", "0xff"
	case 1:
		s1, s2 = "0xFF", "0Xff"
	case 2:
		s1, s2 = "1e2", "100.0"
	case 3:
		s1, s2 = "0x10p-1", "8.0"
	case 4:
		s1, s2 = "9223372036854775807", "0x7fffffffffffffff"
	case 5:
		s1, s2 = "9223372036854775808", "9223372036854775808.0" // overflow to float
	case 6:
		s1, s2 = "0xffffffffffffffff", "-1" // hex wraps modulo 2^64
	case 7:
		s1, s2 = ".5", "0.5"
	// operators applied to literals bind as they do to any other operand
	case 8:
		s1, s2 = "-2^2", "-(2^2)"
	case 9:
		s1, s2 = "2^-2^2", "2^(-(2^2))"
	case 10:
		s1, s2 = "-0x2^2", "-(0x2^2)"
	case 11:
		s1, s2 = "-2.5^2", "-(2.5^2)"
	case 12:
		s1, s2 = "- 3 // 2", "(-3) // 2"
	case 13:
		s1, s2 = "~1 << 2", "(~1) << 2"
	}
	r1, f1 := vhOutcome("return "+s1, NilValue, NilValue, NilValue)
	r2, f2 := vhOutcome("return "+s2, NilValue, NilValue, NilValue)
	verifAssert(!f1 && !f2 && vhSameOutcome(r1, f1, r2, f2), "literal-spellings-agree")
	// redundant parentheses, comments and whitespace do not change meaning
	r3, f3 := vhOutcome("return --[[c]] ( ("+s1+") ) -- x\n", NilValue, NilValue, NilValue)
	verifAssert(vhSameOutcome(r1, f1, r3, f3), "parentheses-comments-whitespace")
}

// long brackets: a long string / long comment of level k ends at the first
// "]" "="*k "]" and nowhere else; the string's value is the raw content (minus
// one leading newline).  Content bytes are symbolic over the alphabet that
// matters to the scanner.
func vhLongAlphabet(c byte) bool {
	return c == ']' || c == '=' || c == '[' || c == 'a' || c == '\n' || c == '-'
}

// vhCloserAt reports whether s[i:] starts with a level-k closing bracket.
func vhCloserAt(s string, i, k int) bool {
	if i+k+1 >= len(s) || s[i] != ']' || s[i+k+1] != ']' {
		return false
	}
	for j := 1; j <= k; j++ {
		if s[i+j] != '=' {
			return false
		}
	}
	return true
}

var vhEqs = [3]string{"", "=", "=="}

func VerifH_C12_long_brackets() {
	level := verifChoose("level", 3)
	maxn := 3
	if verifTier() == 1 {
		maxn = 4
	}
	n := verifChoose("n", maxn+1)
	content := nondetString("content", n)
	for i := 0; i < n; i++ {
		verifAssume(vhLongAlphabet(content[i]))
	}
	closer := "]" + vhEqs[level] + "]"
	body := content + closer
	// stated restriction: the first closing bracket of this level in
	// content+closer is the appended one
	for i := 0; i < n; i++ {
		verifAssume(!vhCloserAt(body, i, level))
	}
	want := content
	if n > 0 && content[0] == '\n' {
		want = content[1:]
	}
	comment := verifChoose("comment", 2) == 1
	if comment {
		verifReach("long-comment")
		_, res, err := vhRunChunk("local x = 7 --[" + vhEqs[level] + "[" + body + " return x")
		verifAssert(err == nil && len(res) == 1 && vhSameValue(res[0], IntValue(7)), "long-comment-ends-at-first-matching-closer")
		return
	}
	verifReach("long-string")
	_, res, err := vhRunChunk("return [" + vhEqs[level] + "[" + body + " .. 'z'")
	verifAssert(err == nil, "valid-long-string-accepted")
	verifAssert(err != nil || (len(res) == 1 && vhSameValue(res[0], StringValue(want+"z"))), "long-string-value-is-raw-content")
}

// escape sequences in quoted strings: "\" + up to 2 (quick) / 3 (thorough)
// bytes over an alphabet that spells decimal, hexadecimal, character and \z
// escapes, followed by the literal 'q': the string's value is what the manual
// prescribes, or the chunk is rejected exactly when the manual says the escape
// is invalid
func vhEscAlphabet(c byte) bool {
	return c == '0' || c == '1' || c == '2' || c == '9' || c == 'x' || c == 'a' || c == 'F' || c == 'n' || c == 'z' || c == ' ' || c == '\\' || c == '"' || c == 'q'
}

func vhIsHex(c byte) bool {
	return (c >= '0' && c <= '9') || (c >= 'a' && c <= 'f') || (c >= 'A' && c <= 'F')
}

func vhHexVal(c byte) int {
	switch {
	case c >= '0' && c <= '9':
		return int(c - '0')
	case c >= 'a' && c <= 'f':
		return int(c-'a') + 10
	}
	return int(c-'A') + 10
}

// specQuoted decodes the body of a double-quoted string (without the quotes);
// ok == false: the manual makes the literal invalid; closed == false: the body
// contains an unescaped quote (the literal ends early — excluded by the caller)
func specQuoted(body string) (out []byte, ok bool, closed bool) {
	i := 0
	for i < len(body) {
		c := body[i]
		i++
		if c == '"' {
			return nil, true, false
		}
		if c != '\\' {
			out = append(out, c)
			continue
		}
		if i >= len(body) {
			return nil, true, false // a backslash escaping the closing quote
		}
		e := body[i]
		i++
		switch {
		case e == 'n':
			out = append(out, 10)
		case e == 'a':
			out = append(out, 7)
		case e == '\\' || e == '"':
			out = append(out, e)
		case e == 'z':
			for i < len(body) && body[i] == ' ' {
				i++
			}
		case e == 'x':
			if i+1 >= len(body) || !vhIsHex(body[i]) || !vhIsHex(body[i+1]) {
				return nil, false, true
			}
			out = append(out, byte(vhHexVal(body[i])*16+vhHexVal(body[i+1])))
			i += 2
		case e >= '0' && e <= '9':
			v := int(e - '0')
			for k := 0; k < 2 && i < len(body) && body[i] >= '0' && body[i] <= '9'; k++ {
				v = v*10 + int(body[i]-'0')
				i++
			}
			if v > 255 {
				return nil, false, true
			}
			out = append(out, byte(v))
		default:
			return nil, false, true // 'F', 'q', ' ' after a backslash
		}
	}
	return out, true, true
}

func VerifH_C12_string_escapes() {
	maxn := 2
	if verifTier() == 1 {
		maxn = 3
	}
	n := 1 + verifChoose("n", maxn)
	esc := nondetString("esc", n)
	for i := 0; i < n; i++ {
		verifAssume(vhEscAlphabet(esc[i]))
	}
	body := "\\" + esc + "q"
	want, valid, closed := specQuoted(body)
	verifAssume(closed) // stated restriction: no unescaped quote inside the body
	_, res, err := vhRunChunk("return \"" + body + "\"")
	if !valid {
		verifReach("invalid-escape")
		verifAssert(err != nil, "invalid-escape-sequence-is-rejected")
		return
	}
	verifReach("valid-escape")
	verifAssert(err == nil, "valid-string-literal-accepted")
	verifAssert(err != nil || (len(res) == 1 && vhSameValue(res[0], StringValue(string(want)))), "escape-sequence-denotes-the-manuals-bytes")
}
