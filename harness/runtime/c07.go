//go:build verif

package runtime

// C07 — nested contexts; also the manager lemmas shared with C05-K1/C06-K1.
// All quantities range over uint64 unless a verifAssume states a bound.
// Stated bound used throughout: limits and single requested amounts are
// < 2^63 (vhLimBound), so that "used + amount" cannot wrap in 64 bits.

const vhLimBound = uint64(1) << 63

// leLimit: a <= b in the order where 0 means "unlimited" (+infinity).
func vhLeLimit(a, b uint64) bool { return b == 0 || (a != 0 && a <= b) }

func vhNondetRes(name string) RuntimeResources {
	return RuntimeResources{Cpu: nondetUint64(name + "_cpu"), Memory: nondetUint64(name + "_mem"), Millis: nondetUint64(name + "_ms")}
}

func vhResBounded(r RuntimeResources) bool {
	return r.Cpu < vhLimBound && r.Memory < vhLimBound && r.Millis < vhLimBound
}

// ---- K1 limit algebra (complete over uint64) ----

func VerifH_C07_limit_algebra() {
	a, b, c := nondetUint64("a"), nondetUint64("b"), nondetUint64("c")
	// smallerLimit is the strict order with 0 = +inf
	verifAssert(smallerLimit(a, b) == (vhLeLimit(a, b) && a != b), "smallerLimit-strict")
	verifAssert(!(smallerLimit(a, b) && smallerLimit(b, a)), "smallerLimit-asym")
	verifAssert(!(smallerLimit(a, b) && smallerLimit(b, c)) || smallerLimit(a, c), "smallerLimit-trans")
	// atLimit(v,l): l <= v with 0 = +inf for l
	verifAssert(atLimit(a, b) == (b != 0 && a >= b), "atLimit")
}

func VerifH_C07_merge_remove_dominates() {
	r, s, v := vhNondetRes("r"), vhNondetRes("s"), vhNondetRes("v")
	m := r.Merge(s)
	// meet: m <= r, m <= s, and m is one of them
	verifAssert(vhLeLimit(m.Cpu, r.Cpu) && vhLeLimit(m.Cpu, s.Cpu) && (m.Cpu == r.Cpu || m.Cpu == s.Cpu), "merge-cpu-meet")
	verifAssert(vhLeLimit(m.Memory, r.Memory) && vhLeLimit(m.Memory, s.Memory) && (m.Memory == r.Memory || m.Memory == s.Memory), "merge-mem-meet")
	verifAssert(vhLeLimit(m.Millis, r.Millis) && vhLeLimit(m.Millis, s.Millis) && (m.Millis == r.Millis || m.Millis == s.Millis), "merge-ms-meet")
	verifAssert(s.Merge(r) == m, "merge-commutative")
	verifAssert(r.Merge(r) == r, "merge-idempotent")
	// Dominates(v) <=> every component of v is below the limit
	d := r.Dominates(v)
	verifAssert(d == ((r.Cpu == 0 || v.Cpu < r.Cpu) && (r.Memory == 0 || v.Memory < r.Memory) && (r.Millis == 0 || v.Millis < r.Millis)), "dominates")
	// Remove saturates at 0
	x := r.Remove(v)
	verifAssert((r.Cpu >= v.Cpu && x.Cpu == r.Cpu-v.Cpu) || (r.Cpu < v.Cpu && x.Cpu == 0), "remove-cpu")
	verifAssert((r.Memory >= v.Memory && x.Memory == r.Memory-v.Memory) || (r.Memory < v.Memory && x.Memory == 0), "remove-mem")
	verifAssert((r.Millis >= v.Millis && x.Millis == r.Millis-v.Millis) || (r.Millis < v.Millis && x.Millis == 0), "remove-ms")
}

// ---- representation invariant of a live manager ----

func vhInv(m *runtimeContextManager) bool {
	h, s, u := m.hardLimits, m.softLimits, m.usedResources
	return m.status == StatusLive &&
		(h.Cpu == 0 || u.Cpu < h.Cpu) && (h.Memory == 0 || u.Memory < h.Memory) && (h.Millis == 0 || u.Millis < h.Millis) &&
		vhLeLimit(s.Cpu, h.Cpu) && vhLeLimit(s.Memory, h.Memory) && vhLeLimit(s.Millis, h.Millis) &&
		m.trackTime == (h.Millis > 0 || s.Millis > 0) &&
		m.trackCpu == (h.Cpu > 0 || s.Cpu > 0 || m.trackTime) &&
		m.trackMem == (h.Memory > 0 || s.Memory > 0)
}

// vhArbitraryManager builds a manager whose scalar state is arbitrary.
func vhArbitraryManager(tag string) *runtimeContextManager {
	m := &runtimeContextManager{}
	m.hardLimits = vhNondetRes(tag + "hard")
	m.softLimits = vhNondetRes(tag + "soft")
	m.usedResources = vhNondetRes(tag + "used")
	m.requiredFlags = ComplianceFlags(nondetUint16(tag + "flags"))
	m.status = StatusLive
	m.trackCpu = nondetBool(tag + "trackCpu")
	m.trackMem = nondetBool(tag + "trackMem")
	m.trackTime = nondetBool(tag + "trackTime")
	m.stopLevel = StopLevel(nondetByte(tag+"stop") & 3)
	m.startTime = nondetUint64(tag + "start")
	m.nextCpuThreshold = nondetUint64(tag + "thr")
	m.initRoot()
	return m
}

func vhBoundedManager(m *runtimeContextManager) bool {
	return vhResBounded(m.hardLimits) && vhResBounded(m.softLimits) && vhResBounded(m.usedResources)
}

// ---- K2 PushContext: one step from an arbitrary valid state ----

func VerifH_C07_push_context() {
	m := vhArbitraryManager("p_")
	verifAssume(vhInv(m) && vhBoundedManager(m) && m.stopLevel&HardStop == 0)
	old := *m
	var def RuntimeContextDef
	def.HardLimits = vhNondetRes("dh")
	def.SoftLimits = vhNondetRes("ds")
	def.RequiredFlags = ComplianceFlags(nondetUint16("dflags"))
	verifAssume(vhResBounded(def.HardLimits) && vhResBounded(def.SoftLimits))
	killed := false
	func() {
		defer func() {
			if r := recover(); r != nil {
				if _, ok := r.(ContextTerminationError); ok {
					killed = true
					return
				}
				panic(r)
			}
		}()
		m.PushContext(def)
	}()
	if killed {
		// only the time limit of the parent can fire here
		verifReach("push-killed-by-time")
		verifAssert(old.trackTime, "push-kill-needs-time-tracking")
		return
	}
	verifReach("pushed")
	h, s := m.hardLimits, m.softLimits
	// what the parent has left (0 = unlimited); Inv gives used < hard
	pu := m.parent.usedResources
	remCpu, remMem, remMs := uint64(0), uint64(0), uint64(0)
	if old.hardLimits.Cpu != 0 {
		remCpu = old.hardLimits.Cpu - pu.Cpu
	}
	if old.hardLimits.Memory != 0 {
		remMem = old.hardLimits.Memory - pu.Memory
	}
	if old.hardLimits.Millis != 0 {
		remMs = old.hardLimits.Millis - pu.Millis
	}
	verifAssert(vhLeLimit(h.Cpu, remCpu) && vhLeLimit(h.Cpu, def.HardLimits.Cpu), "child-hard-cpu<=parent-left")
	verifAssert(vhLeLimit(h.Memory, remMem) && vhLeLimit(h.Memory, def.HardLimits.Memory), "child-hard-mem<=parent-left")
	verifAssert(vhLeLimit(h.Millis, remMs) && vhLeLimit(h.Millis, def.HardLimits.Millis), "child-hard-ms<=parent-left")
	verifAssert(vhLeLimit(s.Cpu, h.Cpu) && vhLeLimit(s.Memory, h.Memory) && vhLeLimit(s.Millis, h.Millis), "child-soft<=hard")
	verifAssert(vhLeLimit(s.Cpu, def.SoftLimits.Cpu) && vhLeLimit(s.Memory, def.SoftLimits.Memory), "child-soft<=requested-soft")
	verifAssert(m.requiredFlags&old.requiredFlags == old.requiredFlags, "flags-include-parent")
	verifAssert(m.requiredFlags&def.RequiredFlags == def.RequiredFlags, "flags-include-requested")
	verifAssert((def.HardLimits.Cpu == 0 || m.requiredFlags&ComplyCpuSafe != 0) && (def.HardLimits.Memory == 0 || m.requiredFlags&ComplyMemSafe != 0), "limits-imply-safety-flags")
	verifAssert(m.usedResources == RuntimeResources{}, "child-starts-at-zero")
	verifAssert(vhInv(m), "child-invariant")
	verifAssert(m.parent != nil && m.parent.hardLimits == old.hardLimits && m.parent.requiredFlags == old.requiredFlags &&
		m.parent.usedResources.Cpu == old.usedResources.Cpu && m.parent.usedResources.Memory == old.usedResources.Memory, "parent-saved")
}

// ---- K3 PopContext ----

func VerifH_C07_pop_context() {
	m := vhArbitraryManager("c_")
	p := vhArbitraryManager("p_")
	verifAssume(vhInv(p) && vhBoundedManager(p) && vhBoundedManager(m))
	verifAssume(p.stopLevel&HardStop == 0 && !p.trackTime && !m.trackTime)
	// child state: any status, used below its own hard limit when live
	st := RuntimeContextStatus(nondetUint16("cstatus"))
	verifAssume(st <= StatusKilled)
	m.status = st
	verifAssume(st != StatusLive || vhInv(m))
	m.parent = p
	m.gcPolicy = ShareGCPolicy
	// which of its hard limits terminated the child (none unless it was killed)
	hit := limitKind(nondetByte("chit") & 7)
	verifAssume(st == StatusKilled || hit == 0)
	m.limitsHit = hit
	// the child died of a limit that was only what the parent had left: the
	// parent is out of that resource too (spec of "a nested context cannot
	// stop the termination")
	sub := func(a, b uint64) uint64 {
		if a >= b {
			return a - b
		}
		return 0
	}
	exhausted := st == StatusKilled &&
		((hit&cpuLimitHit != 0 && p.hardLimits.Cpu > 0 && m.hardLimits.Cpu >= sub(p.hardLimits.Cpu, p.usedResources.Cpu)) ||
			(hit&memLimitHit != 0 && p.hardLimits.Memory > 0 && m.hardLimits.Memory >= sub(p.hardLimits.Memory, p.usedResources.Memory)) ||
			(hit&timeLimitHit != 0 && p.hardLimits.Millis > 0 && m.hardLimits.Millis >= sub(p.hardLimits.Millis, p.usedResources.Millis)))
	cu := m.usedResources
	pu := p.usedResources
	pOld := *p
	var ctx RuntimeContext
	killed := false
	func() {
		defer func() {
			if r := recover(); r != nil {
				if _, ok := r.(ContextTerminationError); ok {
					killed = true
					return
				}
				panic(r)
			}
		}()
		ctx = m.PopContext()
	}()
	wouldCpu := pOld.trackCpu && pOld.hardLimits.Cpu != 0 && pu.Cpu+cu.Cpu >= pOld.hardLimits.Cpu
	wouldMem := pOld.trackMem && pOld.hardLimits.Memory != 0 && pu.Memory+cu.Memory >= pOld.hardLimits.Memory
	if killed {
		verifReach("pop-kills-parent")
		verifAssert(wouldCpu || wouldMem || exhausted, "parent-killed-only-when-over-or-exhausted")
		// the manager object becomes the parent again before an exhausted parent
		// is terminated; a charge that crosses the limit terminates the parent
		// object itself
		par := p
		if m.parent == pOld.parent {
			par = m
		}
		verifAssert(par.status == StatusKilled, "parent-status-killed")
		// the terminated parent still accounts for what the child consumed,
		// unless adding it is what crossed the limit (the request that kills
		// is not added): its reported usage is what its own parent is charged
		if pOld.trackCpu && !wouldCpu {
			verifAssert(par.usedResources.Cpu == pu.Cpu+cu.Cpu, "killed-parent-accounts-for-child-cpu")
		}
		if pOld.trackMem && !wouldMem && !wouldCpu {
			verifAssert(par.usedResources.Memory == pu.Memory+cu.Memory, "killed-parent-accounts-for-child-memory")
		}
		return
	}
	verifReach("popped")
	verifAssert(!wouldCpu && !wouldMem, "over-limit-parent-must-be-killed")
	verifAssert(!exhausted, "exhausted-parent-must-be-killed")
	verifAssert(ctx != nil, "ctx-returned")
	if st == StatusLive {
		verifAssert(ctx.Status() == StatusDone, "live-child-reported-done")
	} else {
		verifAssert(ctx.Status() == st, "status-preserved")
	}
	verifAssert(ctx.UsedResources() == cu, "ctx-used-is-child-used")
	// everything the child consumed is charged to the parent (when tracked)
	if pOld.trackCpu {
		verifAssert(m.usedResources.Cpu == pu.Cpu+cu.Cpu, "cpu-charged-to-parent")
	}
	if pOld.trackMem {
		verifAssert(m.usedResources.Memory == pu.Memory+cu.Memory, "mem-charged-to-parent")
	}
	verifAssert(m.hardLimits == pOld.hardLimits && m.requiredFlags == pOld.requiredFlags && m.parent == pOld.parent, "manager-is-parent-again")
	verifAssert(vhInv(m), "parent-invariant")
}

func VerifH_C07_pop_root_is_noop() {
	m := vhArbitraryManager("r_")
	m.parent = nil
	verifAssert(m.PopContext() == nil, "pop-root-nil")
	var z *runtimeContextManager
	verifAssert(z.PopContext() == nil, "pop-nil-nil")
}

// ---- status / due ----

func VerifH_C07_due_and_stop() {
	m := vhArbitraryManager("d_")
	verifAssume(vhInv(m))
	soft := m.softLimits
	u := m.usedResources
	reached := (soft.Cpu != 0 && u.Cpu >= soft.Cpu) || (soft.Memory != 0 && u.Memory >= soft.Memory) || (soft.Millis != 0 && u.Millis >= soft.Millis)
	verifAssert(m.Due() == (m.stopLevel&SoftStop != 0 || reached), "due-iff-soft-limit-or-stop")
	lvl := StopLevel(nondetByte("lvl") & 3)
	before := m.stopLevel
	killed := false
	func() {
		defer func() {
			if r := recover(); r != nil {
				if _, ok := r.(ContextTerminationError); ok {
					killed = true
					return
				}
				panic(r)
			}
		}()
		m.SetStopLevel(lvl)
	}()
	verifAssert(killed == (lvl&HardStop != 0), "hard-stop-kills")
	verifAssert(m.stopLevel == before|lvl, "stop-level-accumulates")
	if killed {
		verifReach("hard-stop")
		verifAssert(m.status == StatusKilled, "status-killed")
	} else if lvl&SoftStop != 0 {
		verifReach("soft-stop")
		verifAssert(m.Due(), "soft-stop-makes-due")
	}
}

func nondetUint16Flags(name string) ComplianceFlags { return ComplianceFlags(nondetUint16(name)) }
