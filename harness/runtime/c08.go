//go:build verif

package runtime

// C08 — compliance flags gate every Go function (K1, complete over uint16 x uint16).

func VerifH_C08_gate() {
	_, t := vhNewRuntime()
	entered := false
	f := NewGoFunction(func(t *Thread, c *GoCont) (Cont, error) {
		entered = true
		return c.Next(), nil
	}, "harness", 0, false)
	declared := ComplianceFlags(nondetUint16("declared"))
	required := ComplianceFlags(nondetUint16("required"))
	f.safetyFlags = declared
	t.requiredFlags = required
	term := NewTerminationWith(nil, 0, false)
	c := NewGoCont(t, f, term)
	used := t.usedResources
	depth := t.goFunctionCallDepth
	next, err := c.RunInThread(t)
	missing := required&^declared != 0
	verifAssert(entered == !missing, "entered-iff-all-required-flags-declared")
	if missing {
		verifReach("refused")
		verifAssert(err != nil && next == nil, "refusal-is-an-ordinary-error")
		verifAssert(t.Runtime.runtimeContextManager.status == StatusLive, "context-keeps-running")
		verifAssert(t.usedResources == used, "nothing-charged")
		verifAssert(t.goFunctionCallDepth == depth, "call-depth-restored")
	} else {
		verifReach("admitted")
		verifAssert(err == nil && next == Cont(term), "function-ran")
		verifAssert(t.goFunctionCallDepth == depth, "call-depth-restored-after-call")
	}
}

// SolemnlyDeclareCompliance only ever adds flags and rejects undefined bits.
func VerifH_C08_declare_compliance() {
	f := NewGoFunction(nil, "h", 0, false)
	before := ComplianceFlags(nondetUint16("before"))
	f.safetyFlags = before
	flags := ComplianceFlags(nondetUint16("flags"))
	panicked := false
	func() {
		defer func() {
			if recover() != nil {
				panicked = true
			}
		}()
		f.SolemnlyDeclareCompliance(flags)
	}()
	verifAssert(panicked == (flags >= complyflagsLimit), "undefined-flags-rejected")
	if panicked {
		verifReach("rejected")
		verifAssert(f.safetyFlags == before, "rejected-declaration-changes-nothing")
	} else {
		verifReach("declared")
		verifAssert(f.safetyFlags == before|flags, "flags-only-added")
	}
}

// a pushed context can never drop a required flag, whatever limits the new
// context asks for (with C07 push lemma)
func VerifH_C08_push_keeps_flags() {
	_, t := vhNewRuntime()
	t.requiredFlags = ComplianceFlags(nondetUint16("parent"))
	def := RuntimeContextDef{RequiredFlags: ComplianceFlags(nondetUint16("child"))}
	def.HardLimits = vhNondetRes("dh")
	def.SoftLimits = vhNondetRes("ds")
	verifAssume(vhResBounded(def.HardLimits) && vhResBounded(def.SoftLimits))
	// a time limit, if any, is far away: whether the pushed context runs out of
	// time while the harness executes is not this harness's subject (and would
	// make the native replay depend on real time)
	verifAssume(def.HardLimits.Millis == 0 || def.HardLimits.Millis > 1000000)
	before := t.requiredFlags
	t.PushContext(def)
	verifAssert(t.requiredFlags&before == before && t.requiredFlags&def.RequiredFlags == def.RequiredFlags, "child-requires-at-least-parents-flags")
	// nested once more, as pcall does
	t.PushContext(RuntimeContextDef{})
	verifAssert(t.requiredFlags&before == before, "grandchild-keeps-flags")
	t.PopContext()
	t.PopContext()
	verifAssert(t.requiredFlags == before, "pop-restores-parent-flags")
}

// CheckRequiredFlags is exactly the subset test
func VerifH_C08_check_required_flags() {
	m := &runtimeContextManager{}
	m.requiredFlags = ComplianceFlags(nondetUint16("required"))
	flags := ComplianceFlags(nondetUint16("flags"))
	err := m.CheckRequiredFlags(flags)
	verifAssert((err == nil) == (m.requiredFlags&^flags == 0), "check-is-subset-test")
}
