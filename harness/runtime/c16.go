//go:build verif

package runtime

import (
	"github.com/arnodel/golua/code"
)

// C16 — numeric for.  The real prepfor / advfor arms of LuaCont.RunInThread
// are executed on a two-word program with symbolic register contents
// (complete over int64 / binary64).

var (
	vhR1 = code.ValueReg(1)
	vhR2 = code.ValueReg(2)
	vhR3 = code.ValueReg(3)
)

// vhNumLt is the exact order on Lua numbers (specs from c02.go).
func vhNumLt(a, b Value) bool {
	switch {
	case a.NumberType() == IntType && b.NumberType() == IntType:
		return a.AsInt() < b.AsInt()
	case a.NumberType() == IntType:
		return specLtIF(a.AsInt(), b.AsFloat())
	case b.NumberType() == IntType:
		return specLtFI(a.AsFloat(), b.AsInt())
	}
	return a.AsFloat() < b.AsFloat()
}

func vhIsNaN(v Value) bool { return v.NumberType() == FloatType && v.AsFloat() != v.AsFloat() }

// K1: prepare.  kinds: 0 = int, 1 = float for each of start/stop/step.
func VerifH_C16_prepfor_numbers() {
	_, t := vhNewRuntime()
	k := verifChoose("kinds", 8)
	start := vhNumber("start", k&1 != 0)
	stop := vhNumber("stop", k&2 != 0)
	step := vhNumber("step", k&4 != 0)
	// NaN limit is excluded: the manual does not determine it (DESIGN C16)
	verifAssume(!vhIsNaN(stop))
	c, _ := vhNewCont(t, []code.Opcode{code.PrepForLoop(vhR1, vhR2, vhR3)}, 4, 0, nil, 0)
	c.registers[1], c.registers[2], c.registers[3] = start, stop, step
	next, err := c.RunInThread(t)
	verifAssume(!vhIsNaN(step)) // NaN step: unspecified
	stepZero := (step.NumberType() == IntType && step.AsInt() == 0) || (step.NumberType() == FloatType && step.AsFloat() == 0)
	if stepZero {
		verifReach("zero-step")
		verifAssert(err != nil && next == nil, "zero-step-is-error")
		return
	}
	verifAssert(err == nil && next != nil, "no-error")
	// only what Lua code can observe is asserted: whether the loop is entered
	// and the first value of the control variable (how the limit and the step
	// are kept in the hidden registers is the implementation's business)
	s1 := c.registers[1]
	intLoop := start.NumberType() == IntType && step.NumberType() == IntType
	if intLoop {
		verifReach("integer-loop")
	} else {
		verifReach("float-loop")
	}
	// the loop is skipped exactly when start already passes the limit
	stepPos := (step.NumberType() == IntType && step.AsInt() > 0) || (step.NumberType() == FloatType && step.AsFloat() > 0)
	startNaN := vhIsNaN(start)
	// "the progression from e1 by e3 that does not pass e2": in a float loop
	// the initial value is first converted to a float; the limit is compared
	// exactly as given.
	eff := start
	if !intLoop {
		f, _ := ToFloat(start)
		eff = FloatValue(f)
	}
	var empty bool
	if stepPos {
		empty = vhNumLt(stop, eff)
	} else {
		empty = vhNumLt(eff, stop)
	}
	if startNaN {
		// NaN compares false with everything: loop body entered with NaN (as PUC Lua); not asserted
		return
	}
	if empty {
		verifReach("empty-loop")
		verifAssert(s1.IsNil(), "empty-loop-skipped")
	} else {
		verifReach("non-empty-loop")
		if intLoop {
			verifAssert(vhSameNum(s1, start), "int-start-kept")
		} else {
			f, _ := ToFloat(start)
			verifAssert(s1.NumberType() == FloatType && s1.AsFloat() == f, "float-start")
		}
	}
}

// non-numbers are errors, with the role of the offending expression
func VerifH_C16_prepfor_non_number() {
	_, t := vhNewRuntime()
	which := verifChoose("which", 3)
	var regs [3]Value
	regs[0], regs[1], regs[2] = IntValue(nondetInt64("a")), FloatValue(nondetFloat64("b")), IntValue(nondetInt64("c"))
	bad := verifChoose("bad", 4)
	var badVals [4]Value
	badVals[0] = NilValue
	badVals[1] = BoolValue(nondetBool("bb"))
	badVals[2] = TableValue(NewTable())
	badVals[3] = StringValue("x")
	regs[which] = badVals[bad]
	c, _ := vhNewCont(t, []code.Opcode{code.PrepForLoop(vhR1, vhR2, vhR3)}, 4, 0, nil, 0)
	c.registers[1], c.registers[2], c.registers[3] = regs[0], regs[1], regs[2]
	next, err := c.RunInThread(t)
	verifAssert(err != nil && next == nil, "non-number-is-error")
}

// K2: iteration.  The hidden loop state is whatever the real prepfor leaves in
// the three registers; the real advfor is then run on that state.  Since the
// start value is arbitrary, "prepare from v, advance" is one step of the loop
// from any value the control variable can have; two (quick) or three
// (thorough) consecutive steps are checked against the manual's progression
// computed from the ORIGINAL operands, so the check does not depend on how
// the implementation represents the limit or the step.
func vhForStep(t *Thread, op code.Opcode, r1, r2, r3 Value) (Value, Value, Value, bool) {
	c, _ := vhNewCont(t, []code.Opcode{op}, 4, 0, nil, 0)
	c.registers[1], c.registers[2], c.registers[3] = r1, r2, r3
	next, err := c.RunInThread(t)
	return c.registers[1], c.registers[2], c.registers[3], err == nil && next != nil
}

func VerifH_C16_loop_progression() {
	_, t := vhNewRuntime()
	k := verifChoose("kinds", 8)
	start := vhNumber("start", k&1 != 0)
	stop := vhNumber("stop", k&2 != 0)
	step := vhNumber("step", k&4 != 0)
	verifAssume(!vhIsNaN(stop) && !vhIsNaN(step) && !vhIsNaN(start))
	stepZero := (step.NumberType() == IntType && step.AsInt() == 0) || (step.NumberType() == FloatType && step.AsFloat() == 0)
	verifAssume(!stepZero)
	intLoop := start.NumberType() == IntType && step.NumberType() == IntType
	if !intLoop && stop.NumberType() == IntType && verifTier() == 0 {
		return // float progression against an integer limit: thorough tier (slow floating-point queries)
	}
	stepPos := (step.NumberType() == IntType && step.AsInt() > 0) || (step.NumberType() == FloatType && step.AsFloat() > 0)
	passes := func(v Value) bool {
		if stepPos {
			return vhNumLt(stop, v)
		}
		return vhNumLt(v, stop)
	}
	r1, r2, r3, ok := vhForStep(t, code.PrepForLoop(vhR1, vhR2, vhR3), start, stop, step)
	verifAssert(ok, "prepare-succeeds")
	if !ok {
		return
	}
	// the manual's progression
	cur := start
	var fstep float64
	if !intLoop {
		f, _ := ToFloat(start)
		cur = FloatValue(f)
		fstep, _ = ToFloat(step)
	}
	// float progressions: one advance (two in the thorough tier); integer ones: two (three)
	steps := 1
	if intLoop {
		steps = 2
	}
	if verifTier() == 1 {
		steps++
	}
	for it := 0; ; it++ {
		if passes(cur) {
			verifReach("loop-ends")
			verifAssert(r1.IsNil(), "loop-ends-exactly-when-the-next-value-passes-the-limit")
			return
		}
		verifAssert(vhSameNum(r1, cur), "control-variable-follows-the-progression")
		if r1.IsNil() || it == steps {
			verifReach("loop-continues")
			return
		}
		// next value of the progression
		if intLoop {
			v, st := cur.AsInt(), step.AsInt()
			sum := v + st
			if (st > 0 && sum < v) || (st < 0 && sum > v) {
				// an integer loop never wraps around: it ends at overflow
				r1, r2, r3, ok = vhForStep(t, code.AdvForLoop(vhR1, vhR2, vhR3), r1, r2, r3)
				verifReach("ends-at-overflow")
				verifAssert(ok && r1.IsNil(), "integer-loop-ends-at-overflow")
				return
			}
			cur = IntValue(sum)
		} else {
			f := cur.AsFloat() + fstep
			if f != f {
				return // inf + -inf: not determined
			}
			cur = FloatValue(f)
		}
		r1, r2, r3, ok = vhForStep(t, code.AdvForLoop(vhR1, vhR2, vhR3), r1, r2, r3)
		verifAssert(ok, "advance-succeeds")
		if !ok {
			return
		}
	}
}
