//go:build verif

package runtime

import (
	"math"

	"github.com/arnodel/golua/code"
)

// C16 — numeric for.  The real prepfor / advfor arms of LuaCont.RunInThread
// are executed on a two-word program with symbolic register contents
// (complete over int64 / binary64).

var (
	vhR1 = code.ValueReg(1)
	vhR2 = code.ValueReg(2)
	vhR3 = code.ValueReg(3)
)

// vhNumLt is the exact order on Lua numbers (specs from c02.go).
func vhNumLt(a, b Value) bool {
	switch {
	case a.NumberType() == IntType && b.NumberType() == IntType:
		return a.AsInt() < b.AsInt()
	case a.NumberType() == IntType:
		return specLtIF(a.AsInt(), b.AsFloat())
	case b.NumberType() == IntType:
		return specLtFI(a.AsFloat(), b.AsInt())
	}
	return a.AsFloat() < b.AsFloat()
}

func vhIsNaN(v Value) bool { return v.NumberType() == FloatType && v.AsFloat() != v.AsFloat() }

// K1: prepare.  kinds: 0 = int, 1 = float for each of start/stop/step.
func VerifH_C16_prepfor_numbers() {
	_, t := vhNewRuntime()
	k := verifChoose("kinds", 8)
	start := vhNumber("start", k&1 != 0)
	stop := vhNumber("stop", k&2 != 0)
	step := vhNumber("step", k&4 != 0)
	// NaN limit is excluded: the manual does not determine it (DESIGN C16)
	verifAssume(!vhIsNaN(stop))
	c, _ := vhNewCont(t, []code.Opcode{code.PrepForLoop(vhR1, vhR2, vhR3)}, 4, 0, nil, 0)
	c.registers[1], c.registers[2], c.registers[3] = start, stop, step
	next, err := c.RunInThread(t)
	verifAssume(!vhIsNaN(step)) // NaN step: unspecified
	stepZero := (step.NumberType() == IntType && step.AsInt() == 0) || (step.NumberType() == FloatType && step.AsFloat() == 0)
	if stepZero {
		verifReach("zero-step")
		verifAssert(err != nil && next == nil, "zero-step-is-error")
		return
	}
	verifAssert(err == nil && next != nil, "no-error")
	s1, l1, p1 := c.registers[1], c.registers[2], c.registers[3]
	intLoop := start.NumberType() == IntType && step.NumberType() == IntType
	// loop runs with integers exactly when start and step are integers
	if intLoop {
		verifReach("integer-loop")
		verifAssert(vhSameNum(p1, step), "int-step-kept")
	} else {
		verifReach("float-loop")
		verifAssert(p1.NumberType() == FloatType, "float-step")
		f, _ := ToFloat(step)
		verifAssert(p1.AsFloat() == f, "step-value-kept")
	}
	verifAssert(vhSameNum(l1, stop), "limit-kept-as-given")
	// the loop is skipped exactly when start already passes the limit
	stepPos := (step.NumberType() == IntType && step.AsInt() > 0) || (step.NumberType() == FloatType && step.AsFloat() > 0)
	startNaN := vhIsNaN(start)
	// "the progression from e1 by e3 that does not pass e2": in a float loop
	// the initial value is first converted to a float; the limit is compared
	// exactly as given.
	eff := start
	if !intLoop {
		f, _ := ToFloat(start)
		eff = FloatValue(f)
	}
	var empty bool
	if stepPos {
		empty = vhNumLt(stop, eff)
	} else {
		empty = vhNumLt(eff, stop)
	}
	if startNaN {
		// NaN compares false with everything: loop body entered with NaN (as PUC Lua); not asserted
		return
	}
	if empty {
		verifReach("empty-loop")
		verifAssert(s1.IsNil(), "empty-loop-skipped")
	} else {
		verifReach("non-empty-loop")
		if intLoop {
			verifAssert(vhSameNum(s1, start), "int-start-kept")
		} else {
			f, _ := ToFloat(start)
			verifAssert(s1.NumberType() == FloatType && s1.AsFloat() == f, "float-start")
		}
	}
}

// non-numbers are errors, with the role of the offending expression
func VerifH_C16_prepfor_non_number() {
	_, t := vhNewRuntime()
	which := verifChoose("which", 3)
	var regs [3]Value
	regs[0], regs[1], regs[2] = IntValue(nondetInt64("a")), FloatValue(nondetFloat64("b")), IntValue(nondetInt64("c"))
	bad := verifChoose("bad", 4)
	var badVals [4]Value
	badVals[0] = NilValue
	badVals[1] = BoolValue(nondetBool("bb"))
	badVals[2] = TableValue(NewTable())
	badVals[3] = StringValue("x")
	regs[which] = badVals[bad]
	c, _ := vhNewCont(t, []code.Opcode{code.PrepForLoop(vhR1, vhR2, vhR3)}, 4, 0, nil, 0)
	c.registers[1], c.registers[2], c.registers[3] = regs[0], regs[1], regs[2]
	next, err := c.RunInThread(t)
	verifAssert(err != nil && next == nil, "non-number-is-error")
}

// K2: advance, one inductive step from any prepared state.
func VerifH_C16_advfor_int() {
	_, t := vhNewRuntime()
	v, step := nondetInt64("v"), nondetInt64("step")
	stopFloat := verifChoose("stopkind", 2) == 1
	stop := vhNumber("stop", stopFloat)
	verifAssume(step != 0 && !vhIsNaN(stop))
	cur := IntValue(v)
	// prepared state: the current value does not pass the limit
	if step > 0 {
		verifAssume(!vhNumLt(stop, cur))
	} else {
		verifAssume(!vhNumLt(cur, stop))
	}
	c, _ := vhNewCont(t, []code.Opcode{code.AdvForLoop(vhR1, vhR2, vhR3)}, 4, 0, nil, 0)
	c.registers[1], c.registers[2], c.registers[3] = cur, stop, IntValue(step)
	next, err := c.RunInThread(t)
	verifAssert(err == nil && next != nil, "no-error")
	s1 := c.registers[1]
	verifAssert(vhSameNum(c.registers[2], stop) && vhSameNum(c.registers[3], IntValue(step)), "limit-and-step-untouched")
	// mathematical next value v+step, in 65 bits: overflow means the loop ends
	sum := v + step
	overflow := (step > 0 && sum < v) || (step < 0 && sum > v)
	var passes bool
	if !overflow {
		if step > 0 {
			passes = vhNumLt(stop, IntValue(sum))
		} else {
			passes = vhNumLt(IntValue(sum), stop)
		}
	}
	if overflow || passes {
		verifReach("loop-ends")
		verifAssert(s1.IsNil(), "ends-when-passing-limit-or-overflowing")
	} else {
		verifReach("loop-continues")
		verifAssert(vhSameNum(s1, IntValue(sum)), "next-value-is-v+step")
		// ranking function: the distance to the limit strictly decreases
		if step > 0 {
			verifAssert(sum > v, "progress-up")
		} else {
			verifAssert(sum < v, "progress-down")
		}
	}
}

func VerifH_C16_advfor_float() {
	_, t := vhNewRuntime()
	v, step := nondetFloat64("v"), nondetFloat64("step")
	stopFloat := verifChoose("stopkind", 2) == 1
	stop := vhNumber("stop", stopFloat)
	verifAssume(step != 0 && step == step && v == v && !vhIsNaN(stop))
	cur := FloatValue(v)
	if step > 0 {
		verifAssume(!vhNumLt(stop, cur))
	} else {
		verifAssume(!vhNumLt(cur, stop))
	}
	c, _ := vhNewCont(t, []code.Opcode{code.AdvForLoop(vhR1, vhR2, vhR3)}, 4, 0, nil, 0)
	c.registers[1], c.registers[2], c.registers[3] = cur, stop, FloatValue(step)
	next, err := c.RunInThread(t)
	verifAssert(err == nil && next != nil, "no-error")
	s1 := c.registers[1]
	sum := v + step
	var passes bool
	if step > 0 {
		passes = vhNumLt(stop, FloatValue(sum))
	} else {
		passes = vhNumLt(FloatValue(sum), stop)
	}
	if passes {
		verifReach("loop-ends")
		verifAssert(s1.IsNil(), "ends-when-passing-limit")
	} else if sum == sum {
		verifReach("loop-continues")
		verifAssert(s1.NumberType() == FloatType && math.Float64bits(s1.AsFloat()) == math.Float64bits(sum), "next-value-is-v+step")
	}
}
