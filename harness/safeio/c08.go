//go:build verif

package safeio

import (
	rt "github.com/arnodel/golua/runtime"
)

// C08-K3: the safeio wrappers reach the OS primitive iff 'iosafe' is not
// required by the current context (for every flag word).  OS primitives are
// effect events in the engine (never executed).
func VerifH_C08_safeio_gate() {
	r := rt.New(nil)
	flags := rt.ComplianceFlags(nondetUint16("flags") & 0xf)
	// the context may also carry (symbolic) resource limits
	def := rt.RuntimeContextDef{RequiredFlags: flags}
	def.HardLimits.Memory = nondetUint64("mem")
	def.HardLimits.Cpu = nondetUint64("cpu")
	verifAssume(def.HardLimits.Memory < (1<<62) && def.HardLimits.Cpu < (1<<62))
	verifAssume(def.HardLimits.Memory == 0 || def.HardLimits.Memory > 100000)
	verifAssume(def.HardLimits.Cpu == 0 || def.HardLimits.Cpu > 100000)
	r.PushContext(def)
	which := verifChoose("which", 4)
	var err error
	switch which {
	case 0:
		_, err = OpenFile(r, "/nonexistent-verif/a", 0, 0)
	case 1:
		_, err = TempFile(r, "/nonexistent-verif", "x")
	case 2:
		err = RemoveFile(r, "/nonexistent-verif/a")
	case 3:
		err = RenameFile(r, "/nonexistent-verif/a", "/nonexistent-verif/b")
	}
	reached := verifEffects() > 0
	iosafe := flags&rt.ComplyIoSafe != 0
	verifAssert(reached == !iosafe, "os-primitive-reached-iff-iosafe-not-required")
	if iosafe {
		verifReach("blocked")
		verifAssert(err == ErrNotAllowed, "blocked-with-ErrNotAllowed")
	} else {
		verifReach("allowed")
	}
}
