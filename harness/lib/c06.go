//go:build verif

package lib

import (
	rt "github.com/arnodel/golua/runtime"
)

// C06 — charge before allocating.  Operations whose allocation is driven by a
// program-chosen size run inside a context whose memory limit M is symbolic
// (from 1 up to the measured need of a neutral call plus a small margin) with
// a symbolic size N.  An allocation whose symbolic size the path condition
// does not bound (i.e. that was not charged first) ends the path as a crash;
// the accounted memory must stay below M and what is returned must have been
// paid for.

func vhCheckMemory(out vhLimitedRun, mem uint64) {
	verifAssert(!out.crashed, "no-go-panic-and-no-unaccounted-allocation")
	if out.crashed || out.ctx == nil {
		return
	}
	used := out.ctx.UsedResources()
	verifAssert(used.Memory < mem, "memory-counter-stays-below-the-limit")
	if out.ctx.Status() != rt.StatusKilled {
		verifReach("completed-within-limit")
		var total uint64
		for _, v := range out.res {
			total += 16
			if s, ok := v.TryString(); ok {
				total += uint64(len(s))
			}
		}
		verifAssert(total < mem+64, "returned-values-were-charged")
	} else {
		verifReach("killed-by-limit")
	}
}

// string building: rep, concat, char, format with a width
func VerifH_C06_amplify_string_building() {
	verifAllocFatal()
	run := vhNewRun()
	n := nondetInt64("N")
	var fn rt.Value
	var args, neutral []rt.Value
	switch verifChoose("fn", 4) {
	case 0:
		fn = vhLibFn(run, "string", "rep")
		args, neutral = []rt.Value{vhStr("a"), vhInt(n)}, []rt.Value{vhStr("a"), vhInt(0)}
	case 1:
		fn = vhLibFn(run, "string", "rep")
		args, neutral = []rt.Value{vhStr("a"), vhInt(n), vhStr("b")}, []rt.Value{vhStr("a"), vhInt(0), vhStr("b")}
	case 2:
		// table.concat over a range of a table of strings
		fn = vhLibFn(run, "table", "concat")
		tv := rt.TableValue(vhSmallTable())
		args, neutral = []rt.Value{tv, vhStr("--"), vhInt(1), vhInt(n)}, []rt.Value{tv, vhStr("--"), vhInt(1), vhInt(0)}
	case 3:
		// string.sub of a subject: never more than the subject
		fn = vhLibFn(run, "string", "sub")
		args, neutral = []rt.Value{vhStr("abcdef"), vhInt(n), vhInt(-1)}, []rt.Value{vhStr("abcdef"), vhInt(7), vhInt(-1)}
	}
	_, mem := run.smallLimits(1<<20, 64, fn, neutral...)
	out := run.limited(0, mem, fn, args...)
	vhCheckMemory(out, mem)
}

// value lists: table.unpack onto the stack, select, table.pack
func VerifH_C06_amplify_value_lists() {
	verifAllocFatal()
	run := vhNewRun()
	i, j := nondetInt64("I"), nondetInt64("J")
	tv := rt.TableValue(vhSmallTable())
	var fn rt.Value
	var args, neutral []rt.Value
	switch verifChoose("fn", 2) {
	case 0:
		verifAssume(j < i+8 || j >= i+256 || i+8 < i) // as in C05: 8..255 elements not explored
		fn = vhLibFn(run, "table", "unpack")
		args, neutral = []rt.Value{tv, vhInt(i), vhInt(j)}, []rt.Value{tv, vhInt(1), vhInt(0)}
	case 1:
		fn = vhLibFn(run, "", "select")
		args, neutral = []rt.Value{vhInt(i), vhStr("a"), vhStr("b"), vhStr("c")}, []rt.Value{vhInt(3), vhStr("a"), vhStr("b"), vhStr("c")}
	}
	_, mem := run.smallLimits(1<<20, 96, fn, neutral...)
	out := run.limited(0, mem, fn, args...)
	vhCheckMemory(out, mem)
}

// a Lua loop that grows a table N times, and coroutine creation, under a
// memory limit only: killed before the counter reaches M, never crashing
func VerifH_C06_table_growth_and_coroutines() {
	verifAllocFatal()
	run := vhNewRun()
	n := nondetInt64("N")
	verifAssume(n >= 0 && n <= 6)
	var src string
	switch verifChoose("prog", 2) {
	case 0:
		src = `local n = ... local t = {} for i = 1, n do t[i] = i end return #t`
	case 1:
		src = `local n = ... local cs = {} for i = 1, n do cs[i] = coroutine.create(function() end) end return #cs`
	}
	clos, err := run.r.CompileAndLoadLuaChunk("growth", []byte(src), rt.TableValue(run.r.GlobalEnv()))
	verifAssert(err == nil, "chunk-compiles")
	if err != nil {
		return
	}
	fn := rt.FunctionValue(clos)
	_, mem := run.smallLimits(1<<20, 1<<13, fn, vhInt(0))
	out := run.limited(0, mem, fn, vhInt(n))
	vhCheckMemory(out, mem)
	if out.ctx != nil && out.ctx.Status() == rt.StatusDone {
		verifAssert(len(out.res) == 1 && vhSame(out.res[0], vhInt(n)), "completed-run-did-all-the-work")
	}
}

// require/release pairing in load() with a reader function: whatever the
// reader does (pieces, end, a non-string, an error), a load that fails gives
// nothing back to the program beyond nil and a message, so it may not lower the
// memory counter below what it was before the call (no refund), and the
// counter stays below the limit.
var vhPieceLens = [3]int{1, 24, 64}

func VerifH_C06_load_reader_pairing() {
	run := vhNewRun()
	npieces := verifChoose("npieces", 3)
	plen := vhPieceLens[verifChoose("plen", 3)]
	ending := verifChoose("ending", 4) // 0 nil (end of chunk), 1 true (not a string), 2 raises an error, 3 empty string
	piece := ""
	for len(piece) < plen {
		piece += "-" // a chunk of '-' characters: a syntax error, or a comment when it starts with "--"
	}
	calls := 0
	reader := rt.NewGoFunction(func(t *rt.Thread, c *rt.GoCont) (rt.Cont, error) {
		calls++
		if calls <= npieces {
			return c.PushingNext1(t.Runtime, rt.StringValue(piece)), nil
		}
		switch ending {
		case 1:
			return c.PushingNext1(t.Runtime, rt.BoolValue(true)), nil
		case 2:
			return nil, rt.NewError(rt.StringValue("reader failed"))
		case 3:
			return c.PushingNext1(t.Runtime, rt.StringValue("")), nil
		}
		return c.PushingNext1(t.Runtime, rt.NilValue), nil
	}, "reader", 0, false)
	reader.SolemnlyDeclareCompliance(rt.ComplyCpuSafe | rt.ComplyMemSafe | rt.ComplyTimeSafe | rt.ComplyIoSafe)
	fn := vhLibFn(run, "", "load")
	mem := nondetUint64("M")
	verifAssume(mem >= 1 && mem <= 4096)
	var before, after uint64
	finished := false
	term := rt.NewTerminationWith(nil, 0, true)
	ctx, _ := run.t.CallContext(rt.RuntimeContextDef{HardLimits: rt.RuntimeResources{Memory: mem}}, func() error {
		before = run.t.UsedResources().Memory
		err := rt.Call(run.t, fn, []rt.Value{rt.FunctionValue(reader)}, term)
		after = run.t.UsedResources().Memory
		finished = err == nil
		return nil
	})
	verifAssert(ctx != nil && ctx.UsedResources().Memory < mem, "memory-counter-stays-below-the-limit")
	if finished {
		verifReach("load-returned")
		res := term.Etc()
		failed := len(res) >= 1 && res[0].IsNil()
		if failed {
			verifReach("load-failed")
			verifAssert(after >= before, "failed-load-gives-no-memory-refund")
		}
	}
}

// the concatenation operator charges its result whatever the operand types
// (string, integer, float in every combination)
func VerifH_C06_concat_is_charged() {
	run := vhNewRun()
	long := ""
	for len(long) < 120 {
		long += "x"
	}
	var x, y rt.Value
	switch verifChoose("shape", 5) {
	case 0:
		x, y = vhStr(long), vhStr(long)
	case 1:
		x, y = vhStr(long), vhInt(nondetInt64("n"))
	case 2:
		x, y = vhInt(nondetInt64("n")), vhStr(long)
	case 3:
		x, y = vhStr(long), rt.FloatValue(1.5)
	case 4:
		x, y = vhInt(7), rt.FloatValue(2.25)
	}
	var before, after uint64
	var res rt.Value
	var err error
	run.t.CallContext(rt.RuntimeContextDef{HardLimits: rt.RuntimeResources{Memory: 1 << 30}}, func() error {
		before = run.t.UsedResources().Memory
		res, err = rt.Concat(run.t, x, y)
		after = run.t.UsedResources().Memory
		return nil
	})
	verifAssert(err == nil, "concat-succeeds")
	s, ok := res.TryString()
	verifAssert(ok, "concat-gives-a-string")
	verifAssert(after >= before+uint64(len(s)), "concat-result-is-charged")
}
