//go:build verif

package lib

import (
	rt "github.com/arnodel/golua/runtime"
)

// C13 — string.dump followed by load reproduces the function.  Functions are
// compiled from source, dumped and reloaded by the real code (marshalling and
// constant re-indexing executed symbolically); original and reloaded function
// are run on the same symbolic arguments and must give the same trace.

const vhDumpHarness = `
local src, a, b = ...
local f = load(src, "=fn")
local d = string.dump(f)
local g = load(d, "=fn", "b")
emit("dump-deterministic", string.dump(f) == d, string.dump(g) == d)
local function run(h) return pcall(h, a, b) end
emit("orig", run(f))
emit("copy", run(g))
`

var vhDumpFns = [8]string{ // a ninth, generated shape is added by vhManyLocals
	// constants of every type, nested function, varargs, upvalue _ENV
	"local a, b = ... return a + 1, b * 2.5, 'str', 'a-longer-string-constant', true, nil",
	"local a, b = ... local function sq(x) return x * x end return sq(a) - sq(b)",
	"local t = {...} return #t, select('#', ...), (select(2, ...))",
	"local a, b = ... if a < b then return 'lt' elseif a == b then return 'eq' end return 'gt'",
	"local a, b = ... local s = 0 for i = 1, 3 do s = s + i * a end return s, b // 1",
	"local a = ... error('line-info')",
	// float constants with integral values keep their subtype
	"local a, b = ... return math.type(2.0), a * 1e15, -0.0, 1e308 * 10, b // 0.0, 3 | 0, 0x7fffffffffffffff, 1e100",
	// prototypes nested three deep: position information (source name, line) at every depth
	"local a = ... local function l1(d)\n if d == 1 then error('at-1') end\n local function l2()\n if d == 2 then error('at-2') end\n local function l3() error('at-3') end\n return l3() end\n return l2() end\n return l1(a)",
}

func VerifH_C13_dump_load_equivalent() {
	run := vhNewRun()
	k := verifChoose("fn", 9)
	a, b := nondetInt64("a"), nondetInt64("b")
	src := ""
	if k < 8 {
		src = vhDumpFns[k]
	} else {
		src = vhManyLocals()
	}
	_, err := run.lua(vhDumpHarness, vhStr(src), vhInt(a), vhInt(b))
	verifAssert(err == nil, "chunk-runs")
	tr := run.trace
	verifAssert(len(tr) >= 5 && vhSame(tr[0], vhStr("dump-deterministic")) && vhSame(tr[1], rt.BoolValue(true)) && vhSame(tr[2], rt.BoolValue(true)), "dump-is-deterministic-and-idempotent")
	// split the rest into the "orig" and "copy" segments
	i0, i1 := -1, -1
	for i := 3; i < len(tr); i++ {
		if vhSame(tr[i], vhStr("orig")) && i0 < 0 {
			i0 = i
		} else if vhSame(tr[i], vhStr("copy")) && i0 >= 0 && i1 < 0 {
			i1 = i
		}
	}
	verifAssert(i0 == 3 && i1 > i0, "both-ran")
	if i0 != 3 || i1 <= i0 {
		return
	}
	orig, cp := tr[i0+1:i1], tr[i1+1:]
	verifAssert(len(orig) >= 1 && vhTraceIs(cp, orig...), "reloaded-function-observationally-equal")
}

// vhManyLocals: a function with 140 plain locals and 120 locals captured by an
// inner closure (value registers + cells > 255, each bank below its limit)
func vhManyLocals() string {
	num := func(i int) string {
		s := ""
		for i > 0 || s == "" {
			s = string(rune('0'+i%10)) + s
			i /= 10
		}
		return s
	}
	src := "local a, b = ...\n"
	for i := 0; i < 140; i++ {
		src += "local p" + num(i) + " = a + " + num(i) + "\n"
	}
	for i := 0; i < 120; i++ {
		src += "local c" + num(i) + " = b + " + num(i) + "\n"
	}
	src += "local function inner() return c0"
	for i := 1; i < 120; i++ {
		src += " + c" + num(i)
	}
	src += " end\nreturn p0 + p139, inner()"
	return src
}
