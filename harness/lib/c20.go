//go:build verif

package lib

import (
	"sync"

	rt "github.com/arnodel/golua/runtime"
)

// C20 — independent runtimes share no mutable state.  Decided as a write-frame
// property on the executed paths: while runtime A is created, loaded and runs
// library functions, no golua code may write a memory cell that existed before
// A was created (package-level state, reachable from every runtime), and no
// process-wide standard-library state (global math/rand source, GC percent)
// may be touched.  Under gosym these are exact observations on the concrete
// heap; in the native replay the same sharing is demonstrated by its effect on
// a second runtime B (or by the race detector for idempotent writes).

func vhLuaOK(run *vhRun, src string, args ...rt.Value) []rt.Value {
	res, err := run.lua(src, args...)
	if err != nil {
		return nil
	}
	return res
}

const vhTrashEverything = `
local pairs, ipairs, rawget, rawset, type, getmetatable = pairs, ipairs, rawget, rawset, type, getmetatable
local seen = {}
local function trash(t)
  if seen[t] then return end
  seen[t] = true
  local keys = {}
  for k in pairs(t) do keys[#keys + 1] = k end
  for _, k in ipairs(keys) do
    local v = rawget(t, k)
    if type(v) == "table" then
      trash(v)
      local mt = getmetatable(v)
      if type(mt) == "table" then trash(mt) end
    end
  end
  for _, k in ipairs(keys) do rawset(t, k, nil) end
end
local smt, loaded, g = getmetatable(""), package.loaded, _G
trash(loaded) trash(smt) trash(g)
`

const vhSmoke = `
package.preload.answer = function() return 42 end
local r = require("answer")
return r, #package.searchers, ("ab"):upper(), #table.pack(1, 2), math.type(1), type(coroutine.create),
  select("#", string.byte("abc", 1, -1)), tostring(nil)
`

// creating and loading a runtime writes nothing shared
func VerifH_C20_creation_and_loading_share_nothing() {
	before := verifSharedState()
	a := vhNewRun()
	shared := verifSharedState() != before
	if !verifSymbolic() {
		// native demonstration: two runtimes created concurrently (the replay
		// binary is built with the race detector)
		var wg sync.WaitGroup
		for i := 0; i < 2; i++ {
			wg.Add(1)
			go func() { defer wg.Done(); vhNewRun() }()
		}
		wg.Wait()
		// and a behavioural one: a runtime that destroys everything it can
		// reach (every table reachable from its globals, loaded packages and
		// the string metatable) must leave a runtime created afterwards intact
		t := vhNewRun()
		vhLuaOK(t, vhTrashEverything)
		b := vhNewRun()
		res := vhLuaOK(b, vhSmoke)
		if !(len(res) == 8 && vhSame(res[0], vhInt(42)) && vhSame(res[1], vhInt(2)) && vhSame(res[2], vhStr("AB")) &&
			vhSame(res[3], vhInt(2)) && vhSame(res[4], vhStr("integer")) && vhSame(res[5], vhStr("function")) &&
			vhSame(res[6], vhInt(3)) && vhSame(res[7], vhStr("nil"))) {
			shared = true
		}
	}
	_ = a
	verifAssert(!shared, "loading-the-standard-library-writes-no-package-level-state")
}

// a program run in A cannot influence what B computes
func VerifH_C20_library_calls_do_not_leak() {
	a, b := vhNewRun(), vhNewRun()
	before := verifSharedState()
	which := verifChoose("fn", 5)
	n := nondetInt64("n")
	var kf string
	switch which {
	case 0: // redefining globals and the string metatable in A
		vhLuaOK(a, `local n = ... print = nil; string.upper = function() return n end; getmetatable("").__index = {x = n}; x = n`, vhInt(n))
		res := vhLuaOK(b, `return type(print), ("ab"):upper(), x`)
		verifAssert(len(res) == 3 && vhSame(res[0], vhStr("function")) && vhSame(res[1], vhStr("AB")) && res[2].IsNil(), "globals-and-string-metatable-are-per-runtime")
	case 1: // seeding the random generator in A
		kf = "C20-global-rand"
		vhLuaOK(a, `math.randomseed(...)`, vhInt(n))
		if !verifSymbolic() {
			r1 := vhLuaOK(b, `return math.random(0)`)
			vhLuaOK(a, `math.randomseed(...)`, vhInt(n))
			r2 := vhLuaOK(b, `return math.random(0)`)
			if len(r1) == 1 && len(r2) == 1 && vhSame(r1[0], r2[0]) {
				verifAssertKF(false, "no-shared-state-touched", true, kf) // B's sequence is determined by A's seed
			}
			return
		}
	case 2: // stopping the collector in A
		kf = "C20-global-gc-flag"
		vhLuaOK(a, `collectgarbage("stop")`)
		if !verifSymbolic() {
			res := vhLuaOK(b, `return collectgarbage("isrunning")`)
			vhLuaOK(a, `collectgarbage("restart")`)
			if len(res) == 1 && vhSame(res[0], rt.BoolValue(false)) {
				verifAssertKF(false, "no-shared-state-touched", true, kf)
			}
			return
		}
	case 3: // quotas and failures in A
		vhLuaOK(a, `local n = ... pcall(error, n); local t = setmetatable({}, {__index = function() error("x") end}); pcall(function() return t.y end)`, vhInt(n))
		res := vhLuaOK(b, `return 1 + 1`)
		verifAssert(len(res) == 1 && vhSame(res[0], vhInt(2)), "failures-in-A-do-not-affect-B")
	case 4: // both runtimes use the same patterns, formats and library helpers
		const prog = `local n = ...
local k, v = ("k1=" .. n):match("(%a+%d)=(%-?%d+)")
local s, c = ("a b c"):gsub("%s", "_")
local p = string.pack("<i4", 7)
return k, v, s, c, #p, ("%5d|%s"):format(3, "x"), select("#", table.unpack({1, 2, 3}))`
		if !verifSymbolic() {
			// native demonstration: the same program in A and B at the same time
			// (the replay binary is built with the race detector)
			var wg sync.WaitGroup
			for _, r := range []*vhRun{a, b} {
				wg.Add(1)
				r := r
				go func() {
					defer wg.Done()
					for i := 0; i < 300; i++ {
						vhLuaOK(r, prog, vhInt(n))
					}
				}()
			}
			wg.Wait()
		}
		ra := vhLuaOK(a, prog, vhInt(n))
		rb := vhLuaOK(b, prog, vhInt(n))
		verifAssert(len(ra) == 7 && len(rb) == 7, "program-runs-in-both-runtimes")
		for i := 0; i < len(ra) && i < len(rb); i++ {
			verifAssert(vhSame(ra[i], rb[i]), "same-program-same-results-in-both-runtimes")
		}
	}
	verifAssertKF(verifSharedState() == before, "no-shared-state-touched", kf != "", kf)
}
