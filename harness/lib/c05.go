//go:build verif

package lib

import (
	rt "github.com/arnodel/golua/runtime"
)

// C05 / C06 — amplification templates: library functions whose running time or
// allocation is driven by a numeric argument are called, through the real
// call machinery, inside a context with symbolic CPU and memory limits and a
// symbolic size argument N (any int64).  gosym counts loop iterations between
// two metering calls (an unbounded stretch is a "work event") and reports
// allocations whose symbolic size is not bounded by what was charged (an
// "allocation event"), so that the solver decides, for every N and every
// limit, that the operation is metered, stays below its limits and allocates
// only what it charged.

func vhLibFn(run *vhRun, lib, name string) rt.Value {
	env := run.r.GlobalEnv()
	if lib == "" {
		return env.Get(vhStr(name))
	}
	return env.Get(vhStr(lib)).AsTable().Get(vhStr(name))
}

type vhLimitedRun struct {
	ctx     rt.RuntimeContext
	res     []rt.Value
	err     error
	crashed bool
}

func (run *vhRun) limited(cpu, mem uint64, fn rt.Value, args ...rt.Value) (out vhLimitedRun) {
	defer func() {
		if r := recover(); r != nil {
			out.crashed = true
		}
	}()
	term := rt.NewTerminationWith(nil, 0, true)
	verifWorkReset()
	out.ctx, _ = run.t.CallContext(rt.RuntimeContextDef{HardLimits: rt.RuntimeResources{Cpu: cpu, Memory: mem}}, func() error {
		out.err = rt.Call(run.t, fn, args, term)
		return nil
	})
	out.res = term.Etc()
	return
}

// symbolic limits: everything from 1 up to what the call machinery itself
// needs (measured by a dry run of the same function on neutral arguments under
// huge limits — concrete numbers) plus a small margin; everything the call
// charges is compared with them by the solver, and the small margin keeps the
// admitted sizes enumerable
func (run *vhRun) smallLimits(cpuMargin, memMargin uint64, fn rt.Value, neutral ...rt.Value) (cpu, mem uint64) {
	base := run.limited(1<<40, 1<<40, fn, neutral...)
	baseCpu := base.ctx.UsedResources().Cpu
	// memory is released as the call unwinds: find the peak need of the neutral
	// call (to 32 bytes) by running it under growing limits
	peak := uint64(32)
	for ; peak < 1<<14; peak += 32 {
		if o := run.limited(1<<40, peak, fn, neutral...); o.ctx != nil && o.ctx.Status() != rt.StatusKilled {
			break
		}
	}
	cpu, mem = nondetUint64("L"), nondetUint64("M")
	verifAssume(cpu >= 1 && cpu <= baseCpu+cpuMargin && mem >= 1 && mem <= peak+memMargin)
	return
}

func vhCheckLimited(out vhLimitedRun, cpu, mem uint64) {
	verifAssert(!out.crashed, "no-go-panic-and-no-unaccounted-allocation")
	if out.crashed || out.ctx == nil {
		return
	}
	used := out.ctx.UsedResources()
	verifAssert(used.Cpu < cpu, "cpu-counter-stays-below-the-limit")
	verifAssert(used.Memory < mem, "memory-counter-stays-below-the-limit")
	st := out.ctx.Status()
	verifAssert(st == rt.StatusDone || st == rt.StatusError || st == rt.StatusKilled, "ordinary-outcome")
	if st != rt.StatusKilled {
		verifReach("completed-within-limits")
		// what comes back was paid for: a returned string is no longer than the memory limit
		for _, v := range out.res {
			if s, ok := v.TryString(); ok {
				verifAssert(uint64(len(s)) < mem, "returned-string-was-charged")
			}
		}
		verifAssert(uint64(len(out.res))*16 < mem+64, "returned-values-were-charged")
	}
}

var vhPieces = [3]string{"", "a", "ab"}

// string.rep(s, N [, sep])
func VerifH_C05_amplify_string_rep() {
	run := vhNewRun()
	fn := vhLibFn(run, "string", "rep")
	cm, mm := uint64(16), uint64(24)
	if verifTier() == 1 {
		cm, mm = 16, 32
	}
	cpu, mem := run.smallLimits(cm, mm, fn, vhStr(""), vhInt(0))
	n := nondetInt64("N")
	pieces := 2 // "" and "a"; "ab" as well in the thorough tier
	if verifTier() == 1 {
		pieces = 3
	}
	s := vhPieces[verifChoose("s", pieces)]
	args := []rt.Value{vhStr(s), vhInt(n)}
	if k := verifChoose("sep", pieces+1); k > 0 {
		args = append(args, vhStr(vhPieces[k-1]))
	}
	out := run.limited(cpu, mem, fn, args...)
	vhCheckLimited(out, cpu, mem)
}

func vhSmallTable() *rt.Table {
	t := rt.NewTable()
	t.Set(vhInt(1), vhStr("x"))
	t.Set(vhInt(2), vhStr("yz"))
	return t
}

// table.concat(t, sep, I, J), table.unpack(t, I, J), table.move(t, F, E, T),
// table.insert(t, P, v), table.remove(t, P), select(N, ...), string.sub/byte(s, I, J)
func VerifH_C05_amplify_ranges() {
	run := vhNewRun()
	i, j, k := nondetInt64("I"), nondetInt64("J"), nondetInt64("K")
	tv := rt.TableValue(vhSmallTable())
	one := vhInt(1)
	var fn rt.Value
	var args, neutral []rt.Value
	switch verifChoose("fn", 8) {
	case 0:
		fn = vhLibFn(run, "table", "concat")
		args, neutral = []rt.Value{tv, vhStr(","), vhInt(i), vhInt(j)}, []rt.Value{tv, vhStr(","), one, one}
	case 1:
		// stated restriction: ranges of 8..255 elements are not explored
		verifAssume(j < i+8 || j >= i+256 || i+8 < i)
		fn = vhLibFn(run, "table", "unpack")
		args, neutral = []rt.Value{tv, vhInt(i), vhInt(j)}, []rt.Value{tv, one, one}
	case 2:
		// the end of the range is symbolic; start and destination are chosen
		// among a few values (three symbolic positions make every table access
		// a three-way fork)
		k = int64(1 + 2*verifChoose("Kc", 2))
		i = int64(1 + verifChoose("Ic", 2))
		fn = vhLibFn(run, "table", "move")
		args, neutral = []rt.Value{tv, vhInt(i), vhInt(j), vhInt(k)}, []rt.Value{tv, one, one, one}
	case 3:
		fn = vhLibFn(run, "table", "insert")
		args, neutral = []rt.Value{tv, vhInt(i), vhStr("v")}, []rt.Value{rt.TableValue(vhSmallTable()), one, vhStr("v")}
	case 4:
		fn = vhLibFn(run, "table", "remove")
		args, neutral = []rt.Value{tv, vhInt(i)}, []rt.Value{rt.TableValue(vhSmallTable()), one}
	case 5:
		fn = vhLibFn(run, "", "select")
		args, neutral = []rt.Value{vhInt(i), vhStr("a"), vhStr("b")}, []rt.Value{one, vhStr("a"), vhStr("b")}
	case 6:
		fn = vhLibFn(run, "string", "sub")
		args, neutral = []rt.Value{vhStr("abc"), vhInt(i), vhInt(j)}, []rt.Value{vhStr("abc"), one, one}
	case 7:
		fn = vhLibFn(run, "string", "byte")
		args, neutral = []rt.Value{vhStr("abc"), vhInt(i), vhInt(j)}, []rt.Value{vhStr("abc"), one, one}
	}
	cpu, mem := run.smallLimits(8, 48, fn, neutral...)
	out := run.limited(cpu, mem, fn, args...)
	vhCheckLimited(out, cpu, mem)
}

// a coroutine running inside a CPU-limited context hits the limit while it
// holds a to-be-closed variable: the kill propagates to the resumer, the
// context is reported killed with usage below the limit, and the __close
// handler does not get to run Lua code past the limit
func VerifH_C05_kill_in_coroutine_is_not_intercepted_by_close() {
	run := vhNewRun()
	n := nondetInt64("n")
	clos, err := run.r.CompileAndLoadLuaChunk("kill", []byte(`
local n = ...
local co = coroutine.create(function()
  local g <close> = setmetatable({}, {__close = function()
    emit("handler-start")
    for i = 1, 200 do n = n + 1 end
    emit("handler-done")
  end})
  while true do n = n + 1 end
end)
emit("resume", coroutine.resume(co))
emit("after-resume")
`), rt.TableValue(run.r.GlobalEnv()))
	verifAssert(err == nil, "chunk-compiles")
	if err != nil {
		return
	}
	const limit = 150
	term := rt.NewTerminationWith(nil, 0, true)
	ctx, _ := run.t.CallContext(rt.RuntimeContextDef{HardLimits: rt.RuntimeResources{Cpu: limit}}, func() error {
		return rt.Call(run.t, rt.FunctionValue(clos), []rt.Value{vhInt(n)}, term)
	})
	verifAssert(ctx != nil && ctx.Status() == rt.StatusKilled, "context-killed")
	verifAssert(ctx != nil && ctx.UsedResources().Cpu < limit, "used-never-reaches-the-limit")
	for _, v := range run.trace {
		if s, ok := v.TryString(); ok {
			verifAssert(s != "handler-done", "close-handler-does-not-complete-past-the-limit")
			verifAssert(s != "after-resume", "resumer-does-not-run-on-after-the-kill")
		}
	}
	verifAssert(verifLiveGoroutines() == 0, "no-goroutine-left-behind")
}
