//go:build verif

package lib

import (
	rt "github.com/arnodel/golua/runtime"
)

// C05 / C06 — amplification templates: library functions whose running time or
// allocation is driven by a numeric argument are called, through the real
// call machinery, inside a context with symbolic CPU and memory limits and a
// symbolic size argument N (any int64).  gosym counts loop iterations between
// two metering calls (an unbounded stretch is a "work event") and reports
// allocations whose symbolic size is not bounded by what was charged (an
// "allocation event"), so that the solver decides, for every N and every
// limit, that the operation is metered, stays below its limits and allocates
// only what it charged.

func vhLibFn(run *vhRun, lib, name string) rt.Value {
	env := run.r.GlobalEnv()
	if lib == "" {
		return env.Get(vhStr(name))
	}
	return env.Get(vhStr(lib)).AsTable().Get(vhStr(name))
}

type vhLimitedRun struct {
	ctx     rt.RuntimeContext
	res     []rt.Value
	err     error
	crashed bool
}

func (run *vhRun) limited(cpu, mem uint64, fn rt.Value, args ...rt.Value) (out vhLimitedRun) {
	defer func() {
		if r := recover(); r != nil {
			out.crashed = true
		}
	}()
	term := rt.NewTerminationWith(nil, 0, true)
	verifWorkReset()
	out.ctx, _ = run.t.CallContext(rt.RuntimeContextDef{HardLimits: rt.RuntimeResources{Cpu: cpu, Memory: mem}}, func() error {
		out.err = rt.Call(run.t, fn, args, term)
		return nil
	})
	out.res = term.Etc()
	return
}

// symbolic limits in a small range: everything the call charges is compared
// with them by the solver; small values keep the admitted sizes enumerable
func vhSmallLimits() (cpu, mem uint64) {
	cpu, mem = nondetUint64("L"), nondetUint64("M")
	verifAssume(cpu >= 1 && cpu <= 120 && mem >= 1 && mem <= 260)
	return
}

func vhCheckLimited(out vhLimitedRun, cpu, mem uint64) {
	verifAssert(!out.crashed, "no-go-panic-and-no-unaccounted-allocation")
	if out.crashed || out.ctx == nil {
		return
	}
	used := out.ctx.UsedResources()
	verifAssert(used.Cpu < cpu, "cpu-counter-stays-below-the-limit")
	verifAssert(used.Memory < mem, "memory-counter-stays-below-the-limit")
	st := out.ctx.Status()
	verifAssert(st == rt.StatusDone || st == rt.StatusError || st == rt.StatusKilled, "ordinary-outcome")
	if st != rt.StatusKilled {
		verifReach("completed-within-limits")
		// what comes back was paid for: a returned string is no longer than the memory limit
		for _, v := range out.res {
			if s, ok := v.TryString(); ok {
				verifAssert(uint64(len(s)) < mem, "returned-string-was-charged")
			}
		}
		verifAssert(uint64(len(out.res))*16 < mem+64, "returned-values-were-charged")
	}
}

var vhPieces = [3]string{"", "a", "ab"}

// string.rep(s, N [, sep])
func VerifH_C05_amplify_string_rep() {
	run := vhNewRun()
	cpu, mem := vhSmallLimits()
	n := nondetInt64("N")
	s := vhPieces[verifChoose("s", 3)]
	args := []rt.Value{vhStr(s), vhInt(n)}
	if k := verifChoose("sep", 3); k > 0 {
		args = append(args, vhStr(vhPieces[k-1]))
	}
	out := run.limited(cpu, mem, vhLibFn(run, "string", "rep"), args...)
	vhCheckLimited(out, cpu, mem)
}

func vhSmallTable() *rt.Table {
	t := rt.NewTable()
	t.Set(vhInt(1), vhStr("x"))
	t.Set(vhInt(2), vhStr("yz"))
	return t
}

// table.concat(t, sep, I, J), table.unpack(t, I, J), table.move(t, F, E, T),
// table.insert(t, P, v), table.remove(t, P), select(N, ...), string.sub/byte(s, I, J)
func VerifH_C05_amplify_ranges() {
	run := vhNewRun()
	cpu, mem := vhSmallLimits()
	i, j, k := nondetInt64("I"), nondetInt64("J"), nondetInt64("K")
	tv := rt.TableValue(vhSmallTable())
	var out vhLimitedRun
	switch verifChoose("fn", 8) {
	case 0:
		out = run.limited(cpu, mem, vhLibFn(run, "table", "concat"), tv, vhStr(","), vhInt(i), vhInt(j))
	case 1:
		// stated restriction: ranges of 8..255 elements are not explored
		verifAssume(j < i+8 || j >= i+256 || i+8 < i)
		out = run.limited(cpu, mem, vhLibFn(run, "table", "unpack"), tv, vhInt(i), vhInt(j))
	case 2:
		out = run.limited(cpu, mem, vhLibFn(run, "table", "move"), tv, vhInt(i), vhInt(j), vhInt(k))
	case 3:
		out = run.limited(cpu, mem, vhLibFn(run, "table", "insert"), tv, vhInt(i), vhStr("v"))
	case 4:
		out = run.limited(cpu, mem, vhLibFn(run, "table", "remove"), tv, vhInt(i))
	case 5:
		out = run.limited(cpu, mem, vhLibFn(run, "", "select"), vhInt(i), vhStr("a"), vhStr("b"))
	case 6:
		out = run.limited(cpu, mem, vhLibFn(run, "string", "sub"), vhStr("abc"), vhInt(i), vhInt(j))
	case 7:
		out = run.limited(cpu, mem, vhLibFn(run, "string", "byte"), vhStr("abc"), vhInt(i), vhInt(j))
	}
	vhCheckLimited(out, cpu, mem)
}
