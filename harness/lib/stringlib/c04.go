//go:build verif

package stringlib

import (
	rt "github.com/arnodel/golua/runtime"
)

// C04 — no Lua program can crash the host: library argument edges.
// A crash is a Go panic that escapes the call (other than a context
// termination) or an allocation whose size is not bounded by the input.

// vhNoCrash runs f and reports a Go panic that is not a context termination.
func vhNoCrash(f func()) (crashed bool) {
	defer func() {
		if r := recover(); r != nil {
			if _, ok := r.(rt.ContextTerminationError); ok {
				return
			}
			crashed = true
		}
	}()
	f()
	return false
}

var vhPatterns = [10]string{"^", "^a", "a", "a*", "(a)", "()", "%b()", "%f[a]", "a$", "^$"}

// find / match / gmatch / gsub with every init position
func VerifH_C04_pattern_functions_any_init() {
	_, t := vhRT()
	s := vhSubject("s")
	ptn := vhPatterns[verifChoose("ptn", 10)]
	init := nondetInt64("init")
	which := verifChoose("fn", 3)
	crashed := vhNoCrash(func() {
		switch which {
		case 0:
			vhCallFn(t, find, 4, false, rt.StringValue(s), rt.StringValue(ptn), rt.IntValue(init))
		case 1:
			vhCallFn(t, match, 3, false, rt.StringValue(s), rt.StringValue(ptn), rt.IntValue(init))
		case 2:
			vhCallFn(t, gmatch, 3, false, rt.StringValue(s), rt.StringValue(ptn), rt.IntValue(init))
		}
	})
	verifAssert(!crashed, "no-go-panic-from-pattern-function")
}

var vhFormats = [12]string{"%p", "%d", "%s", "%q", "%x", "%c", "%5.2f", "%i", "%u", "%a", "%%", "%10s"}

// string.format with too few / odd arguments
func VerifH_C04_format_argument_edges() {
	_, t := vhRT()
	f := vhFormats[verifChoose("fmt", 12)]
	nargs := verifChoose("nargs", 2)
	var arg rt.Value
	switch verifChoose("kind", 4) {
	case 0:
		arg = rt.IntValue(nondetInt64("i"))
	case 1:
		arg = rt.StringValue(nondetString("s", 1))
	case 2:
		arg = rt.NilValue
	case 3:
		arg = rt.TableValue(rt.NewTable())
	}
	crashed := vhNoCrash(func() {
		if nargs == 0 {
			vhCallFn(t, format, 1, true, rt.StringValue(f))
		} else {
			vhCallFn(t, format, 1, true, rt.StringValue(f), arg)
		}
	})
	verifAssert(!crashed, "no-go-panic-from-format")
}

var vhUnpackFormats = [10]string{"s1", "s2", "s8", "s", "z", "c2", "i3", "I9", "<s4", ">s2"}

// string.unpack of untrusted data: value or error, never a panic, and no
// allocation larger than the data
func VerifH_C04_unpack_untrusted() {
	_, t := vhRT()
	f := vhUnpackFormats[verifChoose("fmt", 10)]
	lens := [5]int{0, 1, 2, 8, 9}
	data := nondetString("d", lens[verifChoose("len", 5)])
	pos := nondetInt64("pos")
	crashed := vhNoCrash(func() {
		vhCallFn(t, unpack, 3, false, rt.StringValue(f), rt.StringValue(data), rt.IntValue(pos))
	})
	verifAssert(!crashed, "no-go-panic-from-unpack")
}

// string.format with every format string "%" + up to 2 arbitrary bytes
// (optionally followed by a literal), with no argument or one integer argument
func VerifH_C04_format_any_short_directive() {
	_, t := vhRT()
	n := verifChoose("n", 3)
	fs := nondetString("f", n)
	if n == 2 && verifTier() == 0 {
		// quick tier: a first byte that ends the directive (a verb or an invalid
		// byte) makes the second one an ordinary literal; only the bytes that
		// continue the directive are followed by an arbitrary second byte
		c := fs[0]
		verifAssume(c == '.' || (c >= '0' && c <= '9') || c == '-' || c == '+' || c == ' ' || c == '#' || c == '%')
	}
	f := "%" + fs
	if verifTier() == 1 && verifChoose("tail", 2) == 1 {
		f += "x"
	}
	nargs := verifChoose("nargs", 2)
	argv := int64(verifChoose("argv", 3)) - 1
	crashed := vhNoCrash(func() {
		if nargs == 0 {
			vhCallFn(t, format, 1, true, rt.StringValue(f))
		} else {
			// the directive parser is the subject: the argument is one of -1, 0, 1
			vhCallFn(t, format, 1, true, rt.StringValue(f), rt.IntValue(argv))
		}
	})
	verifAssert(!crashed, "no-go-panic-from-format-directive")
}

// vhCallSafe is vhCallFn for a function declared compliant with every
// restriction (as the library loader declares it), so that it may be called
// in a limited context.
func vhCallSafe(t *rt.Thread, f rt.GoFunctionFunc, nargs int, hasEtc bool, args ...rt.Value) ([]rt.Value, error) {
	gf := rt.NewGoFunction(f, "harness", nargs, hasEtc)
	gf.SolemnlyDeclareCompliance(rt.ComplyCpuSafe | rt.ComplyMemSafe | rt.ComplyTimeSafe | rt.ComplyIoSafe)
	term := rt.NewTerminationWith(nil, 0, true)
	err := rt.Call(t, rt.FunctionValue(gf), args, term)
	return term.Etc(), err
}

// string.rep with any count and short pieces inside a context with a (small,
// symbolic) memory limit: result, error or termination of the context; no
// panic and no allocation beyond what the accounting admitted
func VerifH_C04_rep_any_count() {
	_, t := vhRT()
	s := nondetString("s", verifChoose("s_len", 2))
	sep := nondetString("sep", verifChoose("sep_len", 2))
	n := nondetInt64("n")
	withSep := verifChoose("withsep", 2) == 1
	// stated restriction: with both pieces empty the result is empty whatever
	// the count (that loop is the subject of C05's metering harness)
	verifAssume(!(withSep && len(s) == 0 && len(sep) == 0) || (n > -4 && n < 4))
	// what the call machinery itself charges, measured with count 0 under a
	// huge limit (a concrete number); the limit ranges over everything up to
	// that plus 96 bytes
	base, _ := t.CallContext(rt.RuntimeContextDef{HardLimits: rt.RuntimeResources{Memory: 1 << 40}}, func() error {
		vhCallSafe(t, rep, 3, false, rt.StringValue(s), rt.IntValue(0))
		return nil
	})
	m := nondetUint64("M")
	verifAssume(m >= 1 && m <= base.UsedResources().Memory+96)
	crashed := vhNoCrash(func() {
		t.CallContext(rt.RuntimeContextDef{HardLimits: rt.RuntimeResources{Memory: m}}, func() error {
			if withSep {
				vhCallSafe(t, rep, 3, false, rt.StringValue(s), rt.IntValue(n), rt.StringValue(sep))
			} else {
				vhCallSafe(t, rep, 3, false, rt.StringValue(s), rt.IntValue(n))
			}
			return nil
		})
	})
	verifAssert(!crashed, "no-go-panic-from-rep")
}

// the same call in a context WITHOUT memory limit: nothing bounds the
// allocation, which is a Go panic (makeslice) or a fatal out-of-memory error
// for large counts — recorded as a known finding
func VerifH_C04_rep_unlimited_context() {
	_, t := vhRT()
	n := nondetInt64("n")
	crashed := vhNoCrash(func() {
		vhCallFn(t, rep, 3, false, rt.StringValue("ab"), rt.IntValue(n))
	})
	verifAssertKF(!crashed, "no-go-panic-from-rep-without-memory-limit", true, "C04-unlimited-context-allocation")
}
