//go:build verif

package stringlib

import (
	rt "github.com/arnodel/golua/runtime"
)

// C04 — no Lua program can crash the host: library argument edges.
// A crash is a Go panic that escapes the call (other than a context
// termination) or an allocation whose size is not bounded by the input.

// vhNoCrash runs f and reports a Go panic that is not a context termination.
func vhNoCrash(f func()) (crashed bool) {
	defer func() {
		if r := recover(); r != nil {
			if _, ok := r.(rt.ContextTerminationError); ok {
				return
			}
			crashed = true
		}
	}()
	f()
	return false
}

var vhPatterns = [10]string{"^", "^a", "a", "a*", "(a)", "()", "%b()", "%f[a]", "a$", "^$"}

// find / match / gmatch / gsub with every init position
func VerifH_C04_pattern_functions_any_init() {
	_, t := vhRT()
	s := vhSubject("s")
	ptn := vhPatterns[verifChoose("ptn", 10)]
	init := nondetInt64("init")
	which := verifChoose("fn", 3)
	crashed := vhNoCrash(func() {
		switch which {
		case 0:
			vhCallFn(t, find, 4, false, rt.StringValue(s), rt.StringValue(ptn), rt.IntValue(init))
		case 1:
			vhCallFn(t, match, 3, false, rt.StringValue(s), rt.StringValue(ptn), rt.IntValue(init))
		case 2:
			vhCallFn(t, gmatch, 3, false, rt.StringValue(s), rt.StringValue(ptn), rt.IntValue(init))
		}
	})
	verifAssert(!crashed, "no-go-panic-from-pattern-function")
}

var vhFormats = [12]string{"%p", "%d", "%s", "%q", "%x", "%c", "%5.2f", "%i", "%u", "%a", "%%", "%10s"}

// string.format with too few / odd arguments
func VerifH_C04_format_argument_edges() {
	_, t := vhRT()
	f := vhFormats[verifChoose("fmt", 12)]
	nargs := verifChoose("nargs", 2)
	var arg rt.Value
	switch verifChoose("kind", 4) {
	case 0:
		arg = rt.IntValue(nondetInt64("i"))
	case 1:
		arg = rt.StringValue(nondetString("s", 1))
	case 2:
		arg = rt.NilValue
	case 3:
		arg = rt.TableValue(rt.NewTable())
	}
	crashed := vhNoCrash(func() {
		if nargs == 0 {
			vhCallFn(t, format, 1, true, rt.StringValue(f))
		} else {
			vhCallFn(t, format, 1, true, rt.StringValue(f), arg)
		}
	})
	verifAssert(!crashed, "no-go-panic-from-format")
}

var vhUnpackFormats = [10]string{"s1", "s2", "s8", "s", "z", "c2", "i3", "I9", "<s4", ">s2"}

// string.unpack of untrusted data: value or error, never a panic, and no
// allocation larger than the data
func VerifH_C04_unpack_untrusted() {
	_, t := vhRT()
	f := vhUnpackFormats[verifChoose("fmt", 10)]
	lens := [5]int{0, 1, 2, 8, 9}
	data := nondetString("d", lens[verifChoose("len", 5)])
	pos := nondetInt64("pos")
	crashed := vhNoCrash(func() {
		vhCallFn(t, unpack, 3, false, rt.StringValue(f), rt.StringValue(data), rt.IntValue(pos))
	})
	verifAssert(!crashed, "no-go-panic-from-unpack")
}
