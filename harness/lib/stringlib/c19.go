//go:build verif

package stringlib

import (
	rt "github.com/arnodel/golua/runtime"
)

// C19 — non-pattern string functions against the manual's definitions on byte
// strings.  The real GoFunctions are called through real continuations
// (rt.Call) with a symbolic subject (every byte string up to the bound) and
// every int64 position.

func vhCallFn(t *rt.Thread, f rt.GoFunctionFunc, nargs int, hasEtc bool, args ...rt.Value) ([]rt.Value, error) {
	gf := rt.NewGoFunction(f, "harness", nargs, hasEtc)
	term := rt.NewTerminationWith(nil, 0, true)
	err := rt.Call(t, rt.FunctionValue(gf), args, term)
	return term.Etc(), err
}

func vhSubject(tag string) string {
	n := 3
	if verifTier() == 1 {
		n = 4
	}
	return nondetString(tag, verifChoose(tag+"_len", n+1))
}

// spec: translate a relative position (manual: negative counts from the end)
func specPos(l int, p int64) int64 {
	if p >= 0 {
		return p
	}
	if -p > int64(l) {
		return 0
	}
	return int64(l) + p + 1
}

// spec of string.sub: the substring from i to j after normalisation/clamping
func specSub(s string, i, j int64) string {
	l := int64(len(s))
	i, j = specPos(len(s), i), specPos(len(s), j)
	if i < 1 {
		i = 1
	}
	if j > l {
		j = l
	}
	if i > j {
		return ""
	}
	return s[i-1 : j]
}

func VerifH_C19_sub() {
	_, t := vhRT()
	s := vhSubject("s")
	i, j := nondetInt64("i"), nondetInt64("j")
	res, err := vhCallFn(t, sub, 3, false, rt.StringValue(s), rt.IntValue(i), rt.IntValue(j))
	verifAssert(err == nil && len(res) == 1, "sub-returns-one-value")
	if err == nil && len(res) == 1 {
		r, ok := res[0].TryString()
		verifAssert(ok && r == specSub(s, i, j), "sub-matches-spec")
	}
	// two-argument form: j defaults to -1
	res, err = vhCallFn(t, sub, 3, false, rt.StringValue(s), rt.IntValue(i))
	verifAssert(err == nil && len(res) == 1, "sub2-returns-one-value")
	if err == nil && len(res) == 1 {
		r, ok := res[0].TryString()
		verifAssert(ok && r == specSub(s, i, -1), "sub2-matches-spec")
	}
}

func VerifH_C19_byte() {
	_, t := vhRT()
	s := vhSubject("s")
	i, j := nondetInt64("i"), nondetInt64("j")
	res, err := vhCallFn(t, bytef, 3, false, rt.StringValue(s), rt.IntValue(i), rt.IntValue(j))
	want := specSub(s, i, j)
	verifAssert(err == nil && len(res) == len(want), "byte-count")
	if err == nil && len(res) == len(want) {
		for k := 0; k < len(want); k++ {
			n, ok := res[k].TryInt()
			verifAssert(ok && n == int64(want[k]), "byte-values")
		}
	}
	// two-argument form: j defaults to i
	res, err = vhCallFn(t, bytef, 3, false, rt.StringValue(s), rt.IntValue(i))
	want1 := specSub(s, i, i)
	if i == 0 || (i < 0 && -i > int64(len(s))) {
		want1 = "" // position before the string: nothing (not clamped to 1)
	}
	verifAssert(err == nil && len(res) == len(want1), "byte2-count")
	if err == nil && len(res) == 1 && len(want1) == 1 {
		n, ok := res[0].TryInt()
		verifAssert(ok && n == int64(want1[0]), "byte2-value")
	}
	// default: i = 1, j = i
	res, err = vhCallFn(t, bytef, 3, false, rt.StringValue(s))
	if len(s) == 0 {
		verifAssert(err == nil && len(res) == 0, "byte-of-empty")
	} else {
		verifAssert(err == nil && len(res) == 1, "byte-default-one")
	}
}

func VerifH_C19_len_reverse_char() {
	_, t := vhRT()
	s := vhSubject("s")
	res, err := vhCallFn(t, lenf, 1, false, rt.StringValue(s))
	verifAssert(err == nil && len(res) == 1, "len-one-value")
	if err == nil && len(res) == 1 {
		n, ok := res[0].TryInt()
		verifAssert(ok && n == int64(len(s)), "len-value")
	}
	res, err = vhCallFn(t, reverse, 1, false, rt.StringValue(s))
	verifAssert(err == nil && len(res) == 1, "reverse-one-value")
	if err == nil && len(res) == 1 {
		r, ok := res[0].TryString()
		verifAssert(ok && len(r) == len(s), "reverse-length")
		if ok && len(r) == len(s) {
			for k := 0; k < len(s); k++ {
				verifAssert(r[k] == s[len(s)-1-k], "reverse-bytes")
			}
		}
	}
	// char: inverse of byte for in-range codes, error otherwise
	a, b := nondetInt64("a"), nondetInt64("b")
	res, err = vhCallFn(t, char, 0, true, rt.IntValue(a), rt.IntValue(b))
	inRange := a >= 0 && a <= 255 && b >= 0 && b <= 255
	verifAssert((err == nil) == inRange, "char-range-check")
	if err == nil && len(res) == 1 {
		verifReach("char-ok")
		r, ok := res[0].TryString()
		verifAssert(ok && len(r) == 2 && int64(r[0]) == a && int64(r[1]) == b, "char-bytes")
	}
}

func VerifH_C19_rep() {
	_, t := vhRT()
	s := nondetString("s", verifChoose("slen", 3))
	// repetition count: -1..3, one path each (strings.Repeat and the builder
	// loop on it; metering of large counts is C05's subject)
	n := int64(verifChoose("n", 5)) - 1
	withSep := verifChoose("withsep", 2) == 1
	var res []rt.Value
	var err error
	sep := ""
	if withSep {
		sep = nondetString("sep", 1)
		res, err = vhCallFn(t, rep, 3, false, rt.StringValue(s), rt.IntValue(n), rt.StringValue(sep))
	} else {
		res, err = vhCallFn(t, rep, 3, false, rt.StringValue(s), rt.IntValue(n))
	}
	if n < 0 {
		// manual: a non-positive count gives the empty string
		verifReach("negative-count")
		if err == nil && len(res) == 1 {
			r, _ := res[0].TryString()
			verifAssert(r == "", "non-positive-count-empty")
		}
		return
	}
	verifAssert(err == nil && len(res) == 1, "rep-one-value")
	if err != nil || len(res) != 1 {
		return
	}
	r, ok := res[0].TryString()
	want := ""
	for k := int64(0); k < n; k++ {
		if k > 0 {
			want += sep
		}
		want += s
	}
	verifAssert(ok && r == want, "rep-matches-spec")
}

// plain find: first occurrence at or after init, 1-based inclusive bounds
func VerifH_C19_find_plain() {
	_, t := vhRT()
	s := vhSubject("s")
	p := nondetString("p", verifChoose("plen", 3))
	init := nondetInt64("init")
	res, err := vhCallFn(t, find, 4, false, rt.StringValue(s), rt.StringValue(p), rt.IntValue(init), rt.BoolValue(true))
	verifAssert(err == nil, "find-no-error")
	if err != nil {
		return
	}
	// spec
	start := specPos(len(s), init)
	if start < 1 {
		start = 1
	}
	found := int64(-1)
	if start <= int64(len(s))+1 {
		for k := start - 1; k+int64(len(p)) <= int64(len(s)); k++ {
			if s[k:k+int64(len(p))] == p {
				found = k
				break
			}
		}
	}
	if found < 0 {
		verifReach("not-found")
		verifAssert(len(res) == 1 && res[0].IsNil(), "not-found-returns-nil")
		return
	}
	verifReach("found")
	verifAssert(len(res) == 2, "found-returns-two-positions")
	if len(res) == 2 {
		a, ok1 := res[0].TryInt()
		b, ok2 := res[1].TryInt()
		verifAssert(ok1 && ok2 && a == found+1 && b == found+int64(len(p)), "found-positions")
	}
}

// upper/lower on ASCII subjects
func VerifH_C19_upper_lower() {
	_, t := vhRT()
	s := vhSubject("s")
	for k := 0; k < len(s); k++ {
		verifAssume(s[k] < 0x80)
	}
	res, err := vhCallFn(t, upper, 1, false, rt.StringValue(s))
	verifAssert(err == nil && len(res) == 1, "upper-one-value")
	if err == nil && len(res) == 1 {
		r, ok := res[0].TryString()
		verifAssert(ok && len(r) == len(s), "upper-length")
		if ok && len(r) == len(s) {
			for k := 0; k < len(s); k++ {
				c := s[k]
				if c >= 'a' && c <= 'z' {
					c -= 32
				}
				verifAssert(r[k] == c, "upper-bytes")
			}
		}
	}
	res, err = vhCallFn(t, lower, 1, false, rt.StringValue(s))
	if err == nil && len(res) == 1 {
		r, ok := res[0].TryString()
		verifAssert(ok && len(r) == len(s), "lower-length")
		if ok && len(r) == len(s) {
			for k := 0; k < len(s); k++ {
				c := s[k]
				if c >= 'A' && c <= 'Z' {
					c += 32
				}
				verifAssert(r[k] == c, "lower-bytes")
			}
		}
	}
}

func vhRT() (*rt.Runtime, *rt.Thread) {
	r := rt.New(nil)
	return r, r.MainThread()
}
