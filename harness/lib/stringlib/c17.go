//go:build verif

package stringlib

import (
	"math"

	rt "github.com/arnodel/golua/runtime"
)

// C17 — pack/unpack round-trips.  Formats are enumerated from the grammar
// (endianness x directive x width); the packed values are symbolic.

var vhEndian = [3]string{"<", ">", "="}

func vhItoa(n int) string {
	if n >= 10 {
		return string([]byte{byte('0' + n/10), byte('0' + n%10)})
	}
	return string([]byte{byte('0' + n)})
}

// fixed-width integer directives: width in bytes, signedness
type vhIntDir struct {
	spec   string
	width  int
	signed bool
}

func vhIntDirective(i int) vhIntDir {
	switch i {
	case 0:
		return vhIntDir{"b", 1, true}
	case 1:
		return vhIntDir{"B", 1, false}
	case 2:
		return vhIntDir{"h", 2, true}
	case 3:
		return vhIntDir{"H", 2, false}
	case 4:
		return vhIntDir{"l", 8, true}
	case 5:
		return vhIntDir{"j", 8, true}
	case 6:
		return vhIntDir{"L", 8, false}
	case 7:
		return vhIntDir{"J", 8, false}
	case 8:
		return vhIntDir{"T", 8, false}
	case 9:
		return vhIntDir{"i", 8, true} // "native int" is 8 bytes in golua (implementation-defined)
	case 10:
		return vhIntDir{"I", 8, false}
	}
	i -= 11
	w := i/2 + 1 // 1..16
	if i%2 == 0 {
		return vhIntDir{"i" + vhItoa(w), w, true}
	}
	return vhIntDir{"I" + vhItoa(w), w, false}
}

const vhNIntDirs = 11 + 32

// narrowly representable: what every implementation must accept
func vhIntFits(v int64, width int, signed bool) bool {
	if signed {
		if width >= 8 {
			return true
		}
		lim := int64(1) << uint(8*width-1)
		return -lim <= v && v < lim
	}
	if v < 0 {
		return false
	}
	if width >= 8 {
		return true
	}
	return v < int64(1)<<uint(8*width)
}

func VerifH_C17_int_roundtrip() {
	e := vhEndian[verifChoose("endian", 3)]
	d := vhIntDirective(verifChoose("dir", vhNIntDirs))
	v := nondetInt64("v")
	format := e + d.spec
	packed, _, err := PackValues(format, []rt.Value{rt.IntValue(v)}, 0)
	fits := vhIntFits(v, d.width, d.signed)
	if fits {
		verifReach("representable")
		verifAssert(err == nil, "representable-value-packs")
	}
	if err != nil {
		verifReach("rejected")
		verifAssert(!fits, "only-unrepresentable-values-rejected")
		return
	}
	verifAssert(len(packed) == d.width, "packed-length-is-width")
	sz, serr := PackSize(format)
	verifAssert(serr == nil && int(sz) == len(packed), "packsize-agrees")
	vals, next, _, uerr := UnpackString(format, packed, 0, 0)
	verifAssert(uerr == nil && len(vals) == 1 && next == len(packed), "unpacks")
	if uerr == nil && len(vals) == 1 {
		n, ok := vals[0].TryInt()
		verifAssert(ok && n == v, "roundtrip-value")
	}
	// byte order: the least significant byte is first (little) or last (big)
	if e == "<" {
		verifAssert(packed[0] == byte(v), "little-endian-lsb-first")
	} else if e == ">" {
		verifAssert(packed[len(packed)-1] == byte(v), "big-endian-lsb-last")
	}
}

// unpack of arbitrary bytes of the right length: the value is the sign- or
// zero-extension of the bytes, or an error when it does not fit a Lua integer
func VerifH_C17_int_unpack_arbitrary() {
	e := verifChoose("endian", 2)
	d := vhIntDirective(verifChoose("dir", vhNIntDirs))
	data := nondetString("data", d.width)
	format := vhEndian[e] + d.spec
	vals, next, _, uerr := UnpackString(format, data, 0, 0)
	// reference value: bytes as a little-endian two's complement number
	var lo uint64
	fitsLow := true
	var ext byte
	if d.signed && ((e == 0 && data[d.width-1]&0x80 != 0) || (e == 1 && data[0]&0x80 != 0)) {
		ext = 0xff
	}
	for i := 0; i < d.width; i++ {
		var b byte
		if e == 0 {
			b = data[i]
		} else {
			b = data[d.width-1-i]
		}
		if i < 8 {
			lo |= uint64(b) << uint(8*i)
		} else if b != ext {
			fitsLow = false
		}
	}
	if d.width < 8 && ext == 0xff {
		lo |= ^uint64(0) << uint(8*d.width)
	}
	if d.width > 8 && d.signed && ((ext == 0xff) != (int64(lo) < 0)) {
		fitsLow = false
	}
	if !fitsLow {
		verifReach("does-not-fit")
		verifAssert(uerr != nil, "oversize-value-rejected")
		return
	}
	verifReach("fits")
	verifAssert(uerr == nil && len(vals) == 1 && next == d.width, "unpacks")
	if uerr == nil && len(vals) == 1 {
		n, ok := vals[0].TryInt()
		verifAssert(ok && uint64(n) == lo, "value-is-extension-of-bytes")
	}
}

func VerifH_C17_float_roundtrip() {
	e := vhEndian[verifChoose("endian", 3)]
	k := verifChoose("dir", 3)
	f := nondetFloat64("f")
	switch k {
	case 0, 1:
		format := e + "d"
		if k == 1 {
			format = e + "n"
		}
		packed, _, err := PackValues(format, []rt.Value{rt.FloatValue(f)}, 0)
		verifAssert(err == nil && len(packed) == 8, "double-packs")
		vals, next, _, uerr := UnpackString(format, packed, 0, 0)
		verifAssert(uerr == nil && len(vals) == 1 && next == 8, "double-unpacks")
		if uerr == nil && len(vals) == 1 {
			g, ok := vals[0].TryFloat()
			verifAssert(ok && math.Float64bits(g) == math.Float64bits(f), "double-roundtrip-bit-exact")
		}
	case 2:
		format := e + "f"
		packed, _, err := PackValues(format, []rt.Value{rt.FloatValue(f)}, 0)
		exact := float64(float32(f)) == f // exactly representable in binary32 (incl. ±Inf)
		if exact {
			verifReach("float32-exact")
			verifAssert(err == nil && len(packed) == 4, "float32-value-packs")
			vals, next, _, uerr := UnpackString(format, packed, 0, 0)
			verifAssert(uerr == nil && len(vals) == 1 && next == 4, "float-unpacks")
			if uerr == nil && len(vals) == 1 {
				g, ok := vals[0].TryFloat()
				verifAssert(ok && math.Float64bits(g) == math.Float64bits(f), "float-roundtrip")
			}
		}
		if f != f {
			verifReach("nan")
			verifAssert(err == nil, "nan-is-representable-in-float")
		}
		if f == f && !math.IsInf(f, 0) && (f > math.MaxFloat32 || f < -math.MaxFloat32) {
			verifReach("float32-overflow")
			verifAssert(err != nil, "out-of-range-float-rejected")
		}
	}
}

func VerifH_C17_string_roundtrip() {
	n := verifChoose("len", 4)
	s := nondetString("s", n)
	k := verifChoose("dir", 5)
	e := vhEndian[verifChoose("endian", 2)]
	switch k {
	case 0: // zero terminated
		hasZero := false
		for i := 0; i < n; i++ {
			if s[i] == 0 {
				hasZero = true
			}
		}
		packed, _, err := PackValues("z", []rt.Value{rt.StringValue(s)}, 0)
		verifAssert((err != nil) == hasZero, "z-rejects-embedded-zero-only")
		if err == nil {
			verifAssert(len(packed) == n+1 && packed[n] == 0, "z-length")
			vals, next, _, uerr := UnpackString("z", packed, 0, 0)
			verifAssert(uerr == nil && len(vals) == 1 && next == n+1, "z-unpacks")
			if uerr == nil && len(vals) == 1 {
				r, ok := vals[0].TryString()
				verifAssert(ok && r == s, "z-roundtrip")
			}
		}
	case 1, 2, 3: // length-prefixed: s1, s2, s (size_t)
		spec, w := "s1", 1
		if k == 2 {
			spec, w = "s2", 2
		} else if k == 3 {
			spec, w = "s", 8
		}
		format := e + spec
		packed, _, err := PackValues(format, []rt.Value{rt.StringValue(s)}, 0)
		verifAssert(err == nil && len(packed) == w+n, "s-packs")
		vals, next, _, uerr := UnpackString(format, packed, 0, 0)
		verifAssert(uerr == nil && len(vals) == 1 && next == w+n, "s-unpacks")
		if uerr == nil && len(vals) == 1 {
			r, ok := vals[0].TryString()
			verifAssert(ok && r == s, "s-roundtrip")
		}
	case 4: // fixed size c<m>, m = 3
		packed, _, err := PackValues("c3", []rt.Value{rt.StringValue(s)}, 0)
		verifAssert(err == nil && len(packed) == 3, "c-packs-padded")
		sz, serr := PackSize("c3")
		verifAssert(serr == nil && sz == 3, "c-packsize")
		vals, next, _, uerr := UnpackString("c3", packed, 0, 0)
		verifAssert(uerr == nil && len(vals) == 1 && next == 3, "c-unpacks")
		if uerr == nil && len(vals) == 1 && n == 3 {
			r, ok := vals[0].TryString()
			verifAssert(ok && r == s, "c-roundtrip-when-exact-length")
		}
	}
}

// alignment: "!n" then p padding bytes then an integer of width w is aligned
// to min(w, n), which must be a power of two
func VerifH_C17_alignment() {
	n := verifChoose("maxalign", 8) + 1 // !1..!8
	p := verifChoose("pad", 4)
	wsel := verifChoose("width", 4)
	w := [4]int{1, 2, 4, 8}[wsel]
	v := nondetInt64("v")
	verifAssume(vhIntFits(v, w, true))
	format := "<!" + vhItoa(n)
	for i := 0; i < p; i++ {
		format += "x"
	}
	format += "i" + vhItoa(w)
	packed, _, err := PackValues(format, []rt.Value{rt.IntValue(v)}, 0)
	a := w
	if n < a {
		a = n
	}
	pow2 := a&(a-1) == 0
	if !pow2 {
		verifReach("bad-alignment")
		verifAssert(err != nil, "non-power-of-2-alignment-rejected")
		return
	}
	verifAssert(err == nil, "packs")
	if err != nil {
		return
	}
	start := p
	if r := p % a; r != 0 {
		start = p + a - r
	}
	verifAssert(len(packed) == start+w, "aligned-offset")
	for i := 0; i < start; i++ {
		verifAssert(packed[i] == 0, "padding-is-zero")
	}
	sz, serr := PackSize(format)
	verifAssert(serr == nil && int(sz) == len(packed), "packsize-agrees")
	vals, next, _, uerr := UnpackString(format, packed, 0, 0)
	verifAssert(uerr == nil && len(vals) == 1 && next == len(packed), "unpacks")
	if uerr == nil && len(vals) == 1 {
		got, ok := vals[0].TryInt()
		verifAssert(ok && got == v, "aligned-roundtrip")
	}
}

// alignment-only items ("X" + option) anywhere, also at the very end of the
// format: pack, packsize and unpack agree on the layout (padding to the
// option's alignment, capped by !n), unpack accepts exactly what pack produced
// and returns the position after the padding
func VerifH_C17_alignment_only_items() {
	n := [3]int{2, 4, 8}[verifChoose("maxalign", 3)]
	w := [3]int{2, 4, 8}[verifChoose("xwidth", 3)]
	lead := 1 + verifChoose("lead", 3) // 1..3 leading bytes
	trailing := verifChoose("trailing", 2) == 1
	v := nondetInt64("v")
	verifAssume(v >= -128 && v <= 127)
	format := "<!" + vhItoa(n)
	vals := []rt.Value{}
	for i := 0; i < lead; i++ {
		format += "b"
		vals = append(vals, rt.IntValue(v))
	}
	format += "Xi" + vhItoa(w)
	if trailing {
		format += "b"
		vals = append(vals, rt.IntValue(v))
	}
	a := w
	if n < a {
		a = n
	}
	want := lead
	if r := lead % a; r != 0 {
		want = lead + a - r
	}
	if trailing {
		want++
	}
	packed, _, err := PackValues(format, vals, 0)
	verifAssert(err == nil && len(packed) == want, "pack-pads-to-the-alignment")
	if err != nil {
		return
	}
	sz, serr := PackSize(format)
	verifAssert(serr == nil && int(sz) == len(packed), "packsize-agrees")
	got, next, _, uerr := UnpackString(format, packed, 0, 0)
	verifAssert(uerr == nil, "unpack-accepts-what-pack-produced")
	verifAssert(uerr != nil || (len(got) == len(vals) && next == len(packed)), "unpack-returns-every-value-and-the-end-position")
}
