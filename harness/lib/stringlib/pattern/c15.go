//go:build verif

package pattern

// C15 — Lua patterns.  Differential harness: the real pattern.New +
// Match/MatchFromStart against a reference matcher written from §6.4.1 of the
// manual (the textbook recursive structure of lstrlib: max_expand,
// min_expand, %b, %f, back-references, position captures).

// ---------- spec: character classes (C locale) ----------

func specClassLetter(cl, c byte) (res bool, known bool) {
	lower := cl | 0x20
	var r bool
	switch lower {
	case 'a':
		r = (c >= 'a' && c <= 'z') || (c >= 'A' && c <= 'Z')
	case 'c':
		r = c < 32 || c == 127
	case 'd':
		r = c >= '0' && c <= '9'
	case 'g':
		r = c > 32 && c < 127
	case 'l':
		r = c >= 'a' && c <= 'z'
	case 'p':
		r = (c >= 33 && c <= 47) || (c >= 58 && c <= 64) || (c >= 91 && c <= 96) || (c >= 123 && c <= 126)
	case 's':
		r = c == ' ' || (c >= 9 && c <= 13)
	case 'u':
		r = c >= 'A' && c <= 'Z'
	case 'w':
		r = (c >= '0' && c <= '9') || (c >= 'a' && c <= 'z') || (c >= 'A' && c <= 'Z')
	case 'x':
		r = (c >= '0' && c <= '9') || (c >= 'a' && c <= 'f') || (c >= 'A' && c <= 'F')
	default:
		return false, false
	}
	if cl >= 'A' && cl <= 'Z' {
		r = !r
	}
	return r, true
}

var vhClassLetters = [20]byte{'a', 'c', 'd', 'g', 'l', 'p', 's', 'u', 'w', 'x', 'A', 'C', 'D', 'G', 'L', 'P', 'S', 'U', 'W', 'X'}

// K1: every named class, for every byte.
func VerifH_C15_classes_complete() {
	cl := vhClassLetters[verifChoose("class", 20)]
	b := nondetByte("b")
	set, err := getCharRange(cl)
	verifAssert(err == nil, "class-exists")
	want, _ := specClassLetter(cl, b)
	verifAssert(set.contains(b) == want, "class-membership")
}

func VerifH_C15_escaped_and_any() {
	c, b := nondetByte("c"), nondetByte("b")
	alnum := (c >= '0' && c <= '9') || (c >= 'a' && c <= 'z') || (c >= 'A' && c <= 'Z')
	verifAssume(!alnum)
	set, err := getCharRange(c)
	verifAssert(err == nil && set.contains(b) == (b == c), "escaped-non-alnum-is-itself")
	verifAssert(fullSet.contains(b), "dot-matches-everything")
}

// sets [xy], [^xy], [x-y], [%ax] with symbolic members, for every byte
func VerifH_C15_sets() {
	x, y, b := nondetByte("x"), nondetByte("y"), nondetByte("b")
	special := func(c byte) bool { return c == ']' || c == '%' || c == '^' || c == '-' }
	verifAssume(!special(x) && !special(y))
	shape := verifChoose("shape", 5)
	if shape == 2 || shape == 4 {
		// the range loop of byteRange runs y-x times: ranges of width <= 3 with
		// a symbolic base, and every inverted range (y < x)
		verifAssume(y < x || y-x <= 2)
	}
	var ptn string
	var want bool
	switch shape {
	case 0:
		ptn = "[" + string([]byte{x, y}) + "]"
		want = b == x || b == y
	case 1:
		ptn = "[^" + string([]byte{x, y}) + "]"
		want = !(b == x || b == y)
	case 2:
		ptn = "[" + string([]byte{x}) + "-" + string([]byte{y}) + "]"
		want = x <= b && b <= y
	case 3:
		ptn = "[%d" + string([]byte{x}) + "]"
		want = (b >= '0' && b <= '9') || b == x
	case 4:
		ptn = "[^" + string([]byte{x}) + "-" + string([]byte{y}) + "%s]"
		want = !((x <= b && b <= y) || b == ' ' || (b >= 9 && b <= 13))
	}
	p, err := New(ptn)
	verifAssert(err == nil && p != nil, "set-compiles")
	verifAssert(len(p.items) == 1 && p.items[0].ptnType == ptnOnce, "one-item")
	verifAssert(p.items[0].bytes.contains(b) == want, "set-membership")
}

// ---------- spec: set syntax (lstrlib classEnd / matchbracketclass) ----------

// specSetEnd returns the index just after the ']' closing the set that starts
// at p[i] == '[', or -1 when the set is not closed.  The first member (after
// an optional '^') is taken literally, so a leading ']' is a member.
func specSetEnd(p string, i int) int {
	j := i + 1
	if j < len(p) && p[j] == '^' {
		j++
	}
	for {
		if j >= len(p) {
			return -1
		}
		c := p[j]
		j++
		if c == '%' && j < len(p) {
			j++
		}
		if j < len(p) && p[j] == ']' {
			return j + 1
		}
	}
}

func specSetMember(p string, i, ec int, c byte) bool {
	k := i
	sig := true
	if p[k+1] == '^' {
		sig = false
		k++
	}
	for k++; k < ec; k++ {
		if p[k] == '%' {
			k++
			if r, known := specClassLetter(p[k], c); known {
				if r {
					return sig
				}
			} else if p[k] == c {
				return sig
			}
		} else if k+2 < ec && p[k+1] == '-' {
			k += 2
			if p[k-2] <= c && c <= p[k] {
				return sig
			}
		} else if p[k] == c {
			return sig
		}
	}
	return !sig
}

// specSetDefined: the manual gives the set a meaning — every range is written
// in ascending order between two plain characters (not starting at the leading
// ']' that is a member by position, not touching a %-class: "the interaction
// between ranges and classes is not defined").
func specSetDefined(p string, i, ec int) bool {
	k := i
	if p[k+1] == '^' {
		k++
	}
	first := k + 1
	for k++; k < ec; k++ {
		if p[k] == '%' {
			k++
			if k+1 < ec && p[k+1] == '-' {
				return false // %x- : class followed by a hyphen that is not last
			}
		} else if k+2 < ec && p[k+1] == '-' {
			if k == first && p[k] == ']' {
				return false
			}
			if p[k+2] == '%' || p[k] > p[k+2] {
				return false
			}
			k += 2
		}
	}
	return true
}

func vhSetAlphabet(c byte) bool {
	return c == ']' || c == '^' || c == '-' || c == '%' || c == 'a' || c == 'c'
}

// set syntax: "[" + up to 3 bytes over the alphabet ] ^ - % a c + "]", whenever
// the manual's rules make that exactly one set: it compiles to one item whose
// membership is the manual's, for every byte
func VerifH_C15_set_syntax() {
	n := 1 + verifChoose("n", 3)
	body := nondetString("body", n)
	for i := 0; i < n; i++ {
		verifAssume(vhSetAlphabet(body[i]))
	}
	ptn := "[" + body + "]"
	// stated restriction: the pattern is exactly one set (it closes at the last byte)
	verifAssume(specSetEnd(ptn, 0) == len(ptn))
	// and one the manual gives a meaning to
	verifAssume(specSetDefined(ptn, 0, len(ptn)-1))
	// ranges run a loop over their width in the implementation: keep them narrow
	for i := 0; i+2 < len(ptn)-1; i++ {
		if ptn[i+1] == '-' {
			verifAssume(ptn[i+2] < ptn[i] || ptn[i+2]-ptn[i] <= 4)
		}
	}
	b := nondetByte("b")
	p, err := New(ptn)
	verifAssert(err == nil && p != nil, "well-formed-set-compiles")
	if err != nil || p == nil {
		return
	}
	verifReach("set-compiled")
	verifAssert(len(p.items) == 1 && p.items[0].ptnType == ptnOnce, "one-item")
	if len(p.items) != 1 {
		return
	}
	verifAssert(p.items[0].bytes.contains(b) == specSetMember(ptn, 0, len(ptn)-1, b), "set-membership-as-the-manual-prescribes")
}

// ---------- spec: matcher ----------

const (
	vkLit = iota // single byte b
	vkAny
	vkClass // %b (class letter in b)
	vkSet   // [b-b2] range set (kept simple: one range)
	vkOpen
	vkClose
	vkPos  // ()
	vkBack // %1..%9 in b
	vkBal  // %bxy
	vkFront // %f[b-b2]
)

type vhTok struct {
	kind  int
	b, b2 byte
	quant byte // 0, '*', '+', '-', '?'
}

type vhCap struct{ start, end int } // end: -1 position, -2 unfinished

type vhSpec struct {
	toks  []vhTok
	s     string
	caps  [10]vhCap
	level int
	endAnchor bool
}

func (m *vhSpec) single(t vhTok, c byte) bool {
	switch t.kind {
	case vkLit:
		return c == t.b
	case vkAny:
		return true
	case vkClass:
		r, _ := specClassLetter(t.b, c)
		return r
	case vkSet:
		return t.b <= c && c <= t.b2
	}
	return false
}

func (m *vhSpec) match(ti, si int) int {
	if ti == len(m.toks) {
		if m.endAnchor && si != len(m.s) {
			return -1
		}
		return si
	}
	t := m.toks[ti]
	switch t.kind {
	case vkOpen:
		l := m.level
		m.caps[l] = vhCap{si, -2}
		m.level++
		r := m.match(ti+1, si)
		if r == -1 {
			m.level--
		}
		return r
	case vkPos:
		l := m.level
		m.caps[l] = vhCap{si, -1}
		m.level++
		r := m.match(ti+1, si)
		if r == -1 {
			m.level--
		}
		return r
	case vkClose:
		l := -1
		for i := m.level - 1; i >= 0; i-- {
			if m.caps[i].end == -2 {
				l = i
				break
			}
		}
		m.caps[l].end = si
		r := m.match(ti+1, si)
		if r == -1 {
			m.caps[l].end = -2
		}
		return r
	case vkBack:
		c := m.caps[int(t.b)-1]
		n := c.end - c.start
		if len(m.s)-si >= n && m.s[c.start:c.end] == m.s[si:si+n] {
			return m.match(ti+1, si+n)
		}
		return -1
	case vkBal:
		if si >= len(m.s) || m.s[si] != t.b {
			return -1
		}
		depth := 1
		for j := si + 1; j < len(m.s); j++ {
			c := m.s[j]
			if c == t.b2 {
				depth--
				if depth == 0 {
					return m.match(ti+1, j+1)
				}
			} else if c == t.b {
				depth++
			}
		}
		return -1
	case vkFront:
		var p, n byte
		if si > 0 {
			p = m.s[si-1]
		}
		if si < len(m.s) {
			n = m.s[si]
		}
		inSet := func(c byte) bool { return t.b <= c && c <= t.b2 }
		if !inSet(p) && inSet(n) {
			return m.match(ti+1, si)
		}
		return -1
	}
	ok := si < len(m.s) && m.single(t, m.s[si])
	switch t.quant {
	case '?':
		if ok {
			if r := m.match(ti+1, si+1); r != -1 {
				return r
			}
		}
		return m.match(ti+1, si)
	case '+':
		if !ok {
			return -1
		}
		return m.maxExpand(t, ti, si+1)
	case '*':
		return m.maxExpand(t, ti, si)
	case '-':
		for {
			if r := m.match(ti+1, si); r != -1 {
				return r
			}
			if si < len(m.s) && m.single(t, m.s[si]) {
				si++
			} else {
				return -1
			}
		}
	}
	if !ok {
		return -1
	}
	return m.match(ti+1, si+1)
}

func (m *vhSpec) maxExpand(t vhTok, ti, si int) int {
	i := 0
	for si+i < len(m.s) && m.single(t, m.s[si+i]) {
		i++
	}
	for i >= 0 {
		if r := m.match(ti+1, si+i); r != -1 {
			return r
		}
		i--
	}
	return -1
}

// find: leftmost match starting at or after init (only at init when anchored)
func (m *vhSpec) find(init int, anchored bool) (start, end int) {
	for si := init; si <= len(m.s); si++ {
		m.level = 0
		if e := m.match(0, si); e != -1 {
			return si, e
		}
		if anchored {
			break
		}
	}
	return -1, -1
}

// ---------- rendering a token list as a pattern string ----------

func vhRender(toks []vhTok, startAnchor, endAnchor bool) string {
	var b []byte
	if startAnchor {
		b = append(b, '^')
	}
	for _, t := range toks {
		switch t.kind {
		case vkLit:
			b = append(b, t.b)
		case vkAny:
			b = append(b, '.')
		case vkClass:
			b = append(b, '%', t.b)
		case vkSet:
			b = append(b, '[', t.b, '-', t.b2, ']')
		case vkOpen:
			b = append(b, '(')
		case vkClose:
			b = append(b, ')')
		case vkPos:
			b = append(b, '(', ')')
		case vkBack:
			b = append(b, '%', '0'+t.b)
		case vkBal:
			b = append(b, '%', 'b', t.b, t.b2)
		case vkFront:
			b = append(b, '%', 'f', '[', t.b, '-', t.b2, ']')
		}
		if t.quant != 0 {
			b = append(b, t.quant)
		}
	}
	if endAnchor {
		b = append(b, '$')
	}
	return string(b)
}

func vhPlain(c byte) bool {
	// a byte that stands for itself everywhere in a pattern
	return c != '^' && c != '$' && c != '(' && c != ')' && c != '%' && c != '.' && c != '[' && c != ']' && c != '*' && c != '+' && c != '-' && c != '?'
}

// vhSkeleton returns the i-th pattern skeleton; literal bytes are symbolic.
func vhSkeleton(i int, x, y byte) (toks []vhTok, sa, ea bool) {
	L := func(q byte) vhTok { return vhTok{kind: vkLit, b: x, quant: q} }
	M := func(q byte) vhTok { return vhTok{kind: vkLit, b: y, quant: q} }
	any := func(q byte) vhTok { return vhTok{kind: vkAny, quant: q} }
	switch i {
	case 0:
		return []vhTok{L(0)}, false, false
	case 1:
		return []vhTok{L('*'), M(0)}, false, false
	case 2:
		return []vhTok{L('+'), M(0)}, false, false
	case 3:
		return []vhTok{L('-'), M(0)}, false, false
	case 4:
		return []vhTok{L('?'), M(0)}, false, false
	case 5:
		return []vhTok{any('*'), L(0)}, false, false
	case 6:
		return []vhTok{any('-'), L(0)}, false, true
	case 7:
		return []vhTok{{kind: vkOpen}, L('*'), {kind: vkClose}, M(0)}, false, false
	case 8:
		return []vhTok{{kind: vkOpen}, any(0), {kind: vkClose}, {kind: vkBack, b: 1}}, false, false
	case 9:
		return []vhTok{{kind: vkPos}, L(0), {kind: vkPos}}, false, false
	case 10:
		return []vhTok{{kind: vkBal, b: x, b2: y}}, false, false
	case 11:
		return []vhTok{{kind: vkFront, b: x, b2: y}, any(0)}, false, false
	case 12:
		return []vhTok{L(0)}, true, false
	case 13:
		return []vhTok{L('*')}, true, true
	case 14:
		return []vhTok{{kind: vkSet, b: x, b2: y, quant: '+'}}, false, false
	case 15:
		return []vhTok{{kind: vkClass, b: 'd', quant: '*'}, L(0)}, false, false
	case 16:
		return []vhTok{{kind: vkOpen}, {kind: vkOpen}, L('?'), {kind: vkClose}, M('*'), {kind: vkClose}}, false, true
	case 17:
		return []vhTok{L('?'), L('?'), M(0)}, false, false
	case 18:
		return []vhTok{any('-'), {kind: vkOpen}, L('+'), {kind: vkClose}}, false, false
	case 19:
		return []vhTok{L('*'), L('*'), M(0)}, false, true
	}
	return nil, false, false
}

const vhNSkeletons = 20

func vhCheckMatch(sk int, n int) {
	x, y := nondetByte("x"), nondetByte("y")
	verifAssume(vhPlain(x) && vhPlain(y))
	toks, sa, ea := vhSkeleton(sk, x, y)
	for _, t := range toks {
		if t.kind == vkSet || t.kind == vkFront {
			// byteRange loops y-x times: ranges of width <= 3, symbolic base
			verifAssume(x <= y && y-x <= 2)
		}
	}
	ptn := vhRender(toks, sa, ea)
	p, err := New(ptn)
	verifAssert(err == nil && p != nil, "skeleton-compiles")
	if err != nil {
		return
	}
	s := nondetString("s", n)
	init := verifChoose("init", n+1)
	spec := &vhSpec{toks: toks, s: s, endAnchor: ea}
	ws, we := spec.find(init, sa)
	caps, _ := p.MatchFromStart(s, init, 0)
	if ws == -1 {
		verifReach("no-match")
		verifAssert(caps == nil, "spec-no-match-impl-no-match")
		return
	}
	verifReach("match")
	verifAssert(caps != nil, "spec-match-impl-match")
	if caps == nil {
		return
	}
	verifAssert(caps[0].start == ws && caps[0].end == we, "same-match-extent")
	verifAssert(len(caps) == spec.level+1, "same-capture-count")
	for i := 0; i < spec.level && i+1 < len(caps); i++ {
		verifAssert(caps[i+1].start == spec.caps[i].start && caps[i+1].end == spec.caps[i].end, "same-capture")
	}
}

func VerifH_C15_match_vs_reference() {
	sk := verifChoose("skeleton", vhNSkeletons)
	n := 3
	if verifTier() == 1 {
		n = 4
	}
	ln := verifChoose("len", n+1)
	vhCheckMatch(sk, ln)
}

// K3: compilation of raw bytes never panics; the result is a pattern or an error
func VerifH_C15_new_never_panics() {
	n := verifChoose("len", 4)
	ptn := nondetString("p", n)
	p, err := New(ptn)
	verifAssert((p == nil) != (err == nil), "pattern-xor-error")
	if err == nil {
		verifReach("compiled")
	} else {
		verifReach("rejected")
	}
}
