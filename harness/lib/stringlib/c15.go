//go:build verif

package stringlib

import (
	"github.com/arnodel/golua/lib/stringlib/pattern"
	rt "github.com/arnodel/golua/runtime"
)

// C15 — string.gsub against the manual's algorithm (§6.4.1, lstrlib's
// str_gsub): scan the subject left to right; at each position try an anchored
// match; a match is used unless it is an empty match ending where the previous
// match ended; otherwise copy one character.  The pattern matcher itself is
// decided against a reference in package pattern; here it is the primitive
// (anchored match at a position) of the reference gsub.

var vhGsubPatterns = [12]string{"a", "a*", "%w", "%w*", "", "b*", "%s*", "(a)(b*)", "a-", ".", "%f[ab]a*", "%f[%w]b?"}
var vhGsubRepls = [6]string{"", "x", "%0%0", "%1", "[%1]", "%%"}

func specExpand(repl string, s string, caps []pattern.Capture) string {
	out := ""
	for i := 0; i < len(repl); i++ {
		c := repl[i]
		if c != '%' {
			out += string([]byte{c})
			continue
		}
		i++
		d := repl[i]
		switch {
		case d == '%':
			out += "%"
		case d == '0':
			out += s[caps[0].Start():caps[0].End()]
		default:
			k := int(d - '0')
			if len(caps) == 1 {
				k = 0 // no captures: %1 is the whole match
			}
			out += s[caps[k].Start():caps[k].End()]
		}
	}
	return out
}

func specGsub(s string, pat *pattern.Pattern, repl string, maxN int64) (string, int64) {
	out := ""
	src, last := 0, -1
	var n int64
	for maxN < 0 || n < maxN {
		caps, _ := pat.MatchFromStart(s, src, 0)
		if len(caps) > 0 && caps[0].End() != last {
			n++
			out += specExpand(repl, s, caps)
			src = caps[0].End()
			last = src
		} else if src < len(s) {
			out += s[src : src+1]
			src++
		} else {
			break
		}
	}
	return out + s[src:], n
}

func VerifH_C15_gsub_vs_reference() {
	_, t := vhRT()
	ptnChoice := verifChoose("ptn", 12)
	ptn := vhGsubPatterns[ptnChoice]
	maxLen := 2
	if verifTier() == 1 || ptnChoice >= 10 {
		maxLen = 3 // the frontier patterns need a character outside the set between two matches
	}
	n := verifChoose("s_len", maxLen+1)
	s := nondetString("s", n)
	for i := 0; i < n; i++ {
		verifAssume(s[i] == 'a' || s[i] == 'b' || s[i] == ' ')
	}
	repl := vhGsubRepls[verifChoose("repl", 6)]
	maxN := int64(verifChoose("max", 4)) - 1 // -1: no limit
	_, err := pattern.New(ptn)
	verifAssert(err == nil, "pattern-compiles")
	if err != nil {
		return
	}
	// the reference's primitive is a match anchored at a position: "^" + pattern
	anchoredPat, aerr := pattern.New("^" + ptn)
	verifAssert(aerr == nil, "anchored-pattern-compiles")
	if aerr != nil {
		return
	}
	want, wantN := specGsub(s, anchoredPat, repl, maxN)
	args := []rt.Value{rt.StringValue(s), rt.StringValue(ptn), rt.StringValue(repl)}
	if maxN >= 0 {
		args = append(args, rt.IntValue(maxN))
	}
	res, gerr := vhCallFn(t, gsub, 4, false, args...)
	verifAssert(gerr == nil && len(res) == 2, "gsub-returns-string-and-count")
	if gerr != nil || len(res) != 2 {
		return
	}
	got, isS := res[0].TryString()
	cnt, isI := res[1].TryInt()
	ptnIdx := 0
	for i, p := range vhGsubPatterns {
		if p == ptn {
			ptnIdx = i
		}
	}
	canMatchEmpty := ptnIdx == 1 || ptnIdx == 3 || ptnIdx == 4 || ptnIdx == 5 || ptnIdx == 6 || ptnIdx == 8 || ptnIdx >= 10
	// known finding C15-gsub-counts-skipped-empty-matches: with a pattern that
	// can match the empty string golua also counts the empty matches it skips
	// (an empty match right after the previous match); the count can exceed the
	// number of substitutions and, when a maximum is given, substitutions are
	// lost because the skipped matches use it up.  Any other discrepancy is
	// still a violation.
	verifAssertKF(isS && got == want, "gsub-result-as-the-manual-prescribes", canMatchEmpty && maxN >= 0, "C15-gsub-counts-skipped-empty-matches")
	verifAssertKF(isI && cnt == wantN, "gsub-count-is-the-number-of-substitutions", canMatchEmpty && isI && cnt > wantN, "C15-gsub-counts-skipped-empty-matches")
}
