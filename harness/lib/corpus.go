//go:build verif

package lib

import (
	"github.com/arnodel/golua/lib/base"
	"github.com/arnodel/golua/lib/coroutine"
	"github.com/arnodel/golua/lib/mathlib"
	"github.com/arnodel/golua/lib/packagelib"
	"github.com/arnodel/golua/lib/stringlib"
	"github.com/arnodel/golua/lib/tablelib"
	rt "github.com/arnodel/golua/runtime"
)

// Lua-level corpus support: a fresh runtime with the real standard library
// loaders (base, package, coroutine, string, table, math), a host callback
// "emit" recording its arguments, and the REAL scanner / parser / compiler / VM
// executed symbolically on the snippet.  Arguments are symbolic Lua values.

type vhRun struct {
	r     *rt.Runtime
	t     *rt.Thread
	trace []rt.Value
}

func vhNewRun() *vhRun {
	r := rt.New(nil)
	LoadLibs(r, base.LibLoader, packagelib.LibLoader, coroutine.LibLoader, stringlib.LibLoader, tablelib.LibLoader, mathlib.LibLoader)
	run := &vhRun{r: r, t: r.MainThread()}
	emit := r.SetEnvGoFunc(r.GlobalEnv(), "emit", func(t *rt.Thread, c *rt.GoCont) (rt.Cont, error) {
		run.trace = append(run.trace, c.Etc()...)
		return c.Next(), nil
	}, 0, true)
	emit.SolemnlyDeclareCompliance(rt.ComplyCpuSafe | rt.ComplyMemSafe | rt.ComplyIoSafe | rt.ComplyTimeSafe)
	return run
}

// lua compiles and runs src with args as "..."; returns results and error.
func (run *vhRun) lua(src string, args ...rt.Value) ([]rt.Value, error) {
	clos, err := run.r.CompileAndLoadLuaChunk("corpus", []byte(src), rt.TableValue(run.r.GlobalEnv()))
	if err != nil {
		return nil, err
	}
	term := rt.NewTerminationWith(nil, 0, true)
	err = rt.Call(run.t, rt.FunctionValue(clos), args, term)
	return term.Etc(), err
}

func vhStr(s string) rt.Value { return rt.StringValue(s) }
func vhInt(n int64) rt.Value  { return rt.IntValue(n) }

// vhSame: same Lua value (numbers by subtype and value, strings by content,
// other values by identity)
func vhSame(a, b rt.Value) bool {
	if a.Type() != b.Type() {
		return false
	}
	switch a.Type() {
	case rt.NilType:
		return true
	case rt.IntType:
		return a.AsInt() == b.AsInt()
	case rt.FloatType:
		x, y := a.AsFloat(), b.AsFloat()
		return x == y || (x != x && y != y)
	case rt.BoolType:
		return a.AsBool() == b.AsBool()
	case rt.StringType:
		return a.AsString() == b.AsString()
	}
	return a.Equals(b)
}

func vhTraceIs(got []rt.Value, want ...rt.Value) bool {
	if len(got) != len(want) {
		return false
	}
	for i := range want {
		if !vhSame(got[i], want[i]) {
			return false
		}
	}
	return true
}
