//go:build verif

package lib

import (
	rt "github.com/arnodel/golua/runtime"
)

// C19 — table functions against the manual's definitions, on a 4-element table
// with symbolic element values and symbolic positions.

func vhTable4(tag string) (*rt.Table, [5]rt.Value) {
	var vals [5]rt.Value
	t := rt.NewTable()
	for i := 1; i <= 4; i++ {
		vals[i] = vhInt(nondetInt64(tag))
		t.Set(vhInt(int64(i)), vals[i])
	}
	return t, vals
}

// table.move(a, f, e, t [, a2]) == "a2[t], ... = a1[f], ..., a1[e]" (a parallel
// assignment: overlapping ranges must behave as if the source were read first)
func VerifH_C19_table_move_is_parallel_assignment() {
	run := vhNewRun()
	src, vals := vhTable4("v")
	f, e, d := nondetInt64("f"), nondetInt64("e"), nondetInt64("d")
	verifAssume(f >= 1 && f <= 4 && e >= 0 && e <= 4 && d >= 1 && d <= 6)
	other := verifChoose("other", 2) == 1
	dst := src
	args := []rt.Value{rt.TableValue(src), vhInt(f), vhInt(e), vhInt(d)}
	if other {
		dst = rt.NewTable()
		args = append(args, rt.TableValue(dst))
	}
	term := rt.NewTerminationWith(nil, 0, true)
	err := rt.Call(run.t, vhLibFn(run, "table", "move"), args, term)
	verifAssert(err == nil, "move-succeeds")
	res := term.Etc()
	verifAssert(len(res) == 1 && res[0].Equals(rt.TableValue(dst)), "returns-the-destination-table")
	// model: positions 1..8 of the destination after the parallel assignment
	for p := int64(1); p <= 8; p++ {
		want := rt.NilValue
		if !other && p <= 4 {
			want = vals[p]
		}
		if e >= f && p >= d && p <= d+(e-f) {
			want = vals[f+(p-d)]
		}
		verifAssert(vhSame(dst.Get(vhInt(p)), want), "destination-holds-the-source-values-read-before-the-move")
	}
}

// table.insert(t, pos, v) shifts up, table.remove(t, pos) shifts down, for every
// valid position; invalid positions are errors that leave the table unchanged
func VerifH_C19_table_insert_remove_positions() {
	run := vhNewRun()
	t, vals := vhTable4("v")
	pos := nondetInt64("pos")
	verifAssume(pos >= -1 && pos <= 7)
	x := vhInt(nondetInt64("x"))
	term := rt.NewTerminationWith(nil, 0, true)
	if verifChoose("op", 2) == 0 {
		err := rt.Call(run.t, vhLibFn(run, "table", "insert"), []rt.Value{rt.TableValue(t), vhInt(pos), x}, term)
		if pos >= 1 && pos <= 5 {
			verifReach("insert-valid")
			verifAssert(err == nil, "insert-at-valid-position-succeeds")
			for p := int64(1); p <= 5; p++ {
				want := x
				if p < pos {
					want = vals[p]
				} else if p > pos {
					want = vals[p-1]
				}
				verifAssert(vhSame(t.Get(vhInt(p)), want), "insert-shifts-up")
			}
		} else {
			verifReach("insert-invalid")
			verifAssert(err != nil, "insert-position-out-of-bounds-is-an-error")
			for p := int64(1); p <= 4; p++ {
				verifAssert(vhSame(t.Get(vhInt(p)), vals[p]), "failed-insert-leaves-the-table-unchanged")
			}
		}
		return
	}
	err := rt.Call(run.t, vhLibFn(run, "table", "remove"), []rt.Value{rt.TableValue(t), vhInt(pos)}, term)
	if pos >= 1 && pos <= 5 {
		// #t == 4: positions 1..4 remove an element, 5 (#t+1) removes nothing
		verifReach("remove-valid")
		verifAssert(err == nil, "remove-at-valid-position-succeeds")
		res := term.Etc()
		if pos <= 4 {
			verifAssert(len(res) == 1 && vhSame(res[0], vals[pos]), "remove-returns-the-element")
			for p := int64(1); p <= 4; p++ {
				want := rt.NilValue
				if p < pos {
					want = vals[p]
				} else if p < 4 {
					want = vals[p+1]
				}
				verifAssert(vhSame(t.Get(vhInt(p)), want), "remove-shifts-down")
			}
		}
	} else {
		verifReach("remove-invalid")
		verifAssert(err != nil, "remove-position-out-of-bounds-is-an-error")
	}
}
