//go:build verif

package lib

import (
	"sort"

	"github.com/arnodel/golua/lib/base"
	"github.com/arnodel/golua/lib/coroutine"
	"github.com/arnodel/golua/lib/iolib"
	"github.com/arnodel/golua/lib/mathlib"
	"github.com/arnodel/golua/lib/oslib"
	"github.com/arnodel/golua/lib/packagelib"
	"github.com/arnodel/golua/lib/stringlib"
	"github.com/arnodel/golua/lib/tablelib"
	"github.com/arnodel/golua/lib/utf8lib"
	rt "github.com/arnodel/golua/runtime"
)

// Library walk: every function reachable from the global table of a runtime
// with the standard libraries loaded (base, package, coroutine, string, table,
// math, utf8, io, os) is enumerated at run time (sorted by library and name)
// and called on argument tuples built from kinds; integers, floats and string
// bytes in the tuples are symbolic.

type vhLibFunc struct {
	lib, name string
	fn        rt.Value
}

func vhNewFullRun() *vhRun {
	r := rt.New(nil)
	LoadLibs(r, base.LibLoader, packagelib.LibLoader, coroutine.LibLoader, stringlib.LibLoader, tablelib.LibLoader,
		mathlib.LibLoader, utf8lib.LibLoader, iolib.LibLoader, oslib.LibLoader)
	return &vhRun{r: r, t: r.MainThread()}
}

var vhWalkLibs = [9]string{"", "string", "table", "math", "utf8", "coroutine", "package", "io", "os"}

func vhFunctionsOf(run *vhRun, lib string) []vhLibFunc {
	tbl := run.r.GlobalEnv()
	if lib != "" {
		v := tbl.Get(vhStr(lib))
		t, ok := v.TryTable()
		if !ok {
			return nil
		}
		tbl = t
	}
	var names []string
	k := rt.NilValue
	for {
		nk, v, ok := tbl.Next(k)
		if !ok || nk.IsNil() {
			break
		}
		k = nk
		if s, isS := nk.TryString(); isS && v.Type() == rt.FunctionType {
			names = append(names, s)
		}
	}
	sort.Strings(names)
	fs := make([]vhLibFunc, len(names))
	for i, n := range names {
		fs[i] = vhLibFunc{lib, n, tbl.Get(vhStr(n))}
	}
	return fs
}

// vhPickFunction chooses one function of the walk (nil when the index is past
// the end of the chosen library's list).
func vhPickFunction(run *vhRun, nlibs int) *vhLibFunc {
	lib := vhWalkLibs[verifChoose("lib", nlibs)]
	fs := vhFunctionsOf(run, lib)
	i := verifChoose("fn", 40)
	if i >= len(fs) {
		return nil
	}
	return &fs[i]
}

var vhIntPool = [12]int64{-9223372036854775808, -2147483649, -256, -1, 0, 1, 2, 255, 65536, 2147483648, 9007199254740993, 9223372036854775807}

// vhEdgeValue builds one argument: 0 nil, 1 an integer of the edge pool (chosen
// by the solver), 2 any float, 3 a string of one arbitrary byte, 4 the empty
// string, 5 an empty table, 6 true, 7 a function
func vhEdgeValue(tag string, kind int) rt.Value {
	switch kind {
	case 1:
		n := nondetInt64(tag + "_i")
		in := false
		for _, p := range vhIntPool {
			in = in || n == p
		}
		verifAssume(in)
		return vhInt(n)
	case 2:
		return rt.FloatValue(nondetFloat64(tag + "_f"))
	case 3:
		return vhStr(nondetString(tag+"_s", 1))
	case 4:
		return vhStr("")
	case 5:
		return rt.TableValue(rt.NewTable())
	case 6:
		return rt.BoolValue(true)
	case 7:
		f := rt.NewGoFunction(func(t *rt.Thread, c *rt.GoCont) (rt.Cont, error) { return c.Next(), nil }, "noop", 0, true)
		f.SolemnlyDeclareCompliance(rt.ComplyCpuSafe | rt.ComplyMemSafe | rt.ComplyTimeSafe | rt.ComplyIoSafe)
		return rt.FunctionValue(f)
	}
	return rt.NilValue
}

// vhCrashKind runs f: 0 no crash, 1 a Go panic escaped, 2 an allocation of
// unbounded size (gosym only)
func vhCrashKind(f func()) (kind int) {
	defer func() {
		if r := recover(); r != nil {
			if _, ok := r.(rt.ContextTerminationError); ok {
				return
			}
			kind = 1
			if s, ok := r.(string); ok && s == "huge allocation" {
				kind = 2
			}
		}
	}()
	f()
	return 0
}

// C04: every library function (not io/os: their OS-facing parts are stubs under
// gosym) x every tuple of up to 2 edge values, in a context with CPU and
// memory limits: value, Lua error or termination of the context — no Go panic.
func VerifH_C04_library_walk_edge_arguments() {
	run := vhNewFullRun()
	lf := vhPickFunction(run, 7)
	if lf == nil {
		return
	}
	if lf.lib == "" && (lf.name == "print" || lf.name == "dofile" || lf.name == "loadfile" || lf.name == "collectgarbage") {
		return // output / file system / process-wide collector: not this check's subject
	}
	if lf.lib == "package" || (lf.lib == "" && lf.name == "require") || (lf.lib == "math" && lf.name == "randomseed") {
		return // randomseed() reads the system's entropy source
	}
	verifReach("function-called")
	nkinds := 8
	nargs := verifChoose("nargs", 3)
	if nargs == 2 {
		return // tuples of 0 and 1 argument (pairs multiply the concretisation of size arguments beyond what finishes in an hour)
	}
	args := make([]rt.Value, nargs)
	for i := range args {
		if nargs == 2 {
			// pairs: pool integer or one-byte string in each position
			args[i] = vhEdgeValue("a", [2]int{1, 3}[verifChoose("kind2", 2)])
		} else {
			args[i] = vhEdgeValue("a", verifChoose("kind", nkinds))
		}
	}
	kind := vhCrashKind(func() {
		term := rt.NewTerminationWith(nil, 0, true)
		run.t.CallContext(rt.RuntimeContextDef{HardLimits: rt.RuntimeResources{Cpu: 3000, Memory: 1 << 15}}, func() error {
			return rt.Call(run.t, lf.fn, args, term)
		})
	})
	verifAssert(kind == 0, "no-go-panic-from-library-function:"+lf.lib+"."+lf.name)
}

// C08: every function reachable from the globals (all nine libraries, plus the
// entries of package.searchers), called in a context that requires 'iosafe' on
// a sentinel path (package.path is "?" so that a searcher would open exactly
// that path): the gate refuses it or it runs without reaching an OS primitive.
// Natively the sentinel file exists with known content; a function that
// modifies, removes or renames it is observed afterwards, and one that merely
// reads the file system is observed as an oracle: the same call gives a
// different outcome when the file does not exist.
func vhIosafeCall(pick func(run *vhRun) *vhLibFunc, nargs int) (called bool, outcome string) {
	run := vhNewFullRun()
	lf := pick(run)
	if lf == nil {
		return false, ""
	}
	if pkg, ok := run.r.GlobalEnv().Get(vhStr("package")).TryTable(); ok {
		run.r.SetTable(pkg, vhStr("path"), vhStr("?"))
	}
	args := []rt.Value{vhStr(vhWalkSentinel), vhStr("w")}[:nargs]
	func() {
		defer func() {
			if recover() != nil {
				outcome = "panic" // crashes are C04's subject
			}
		}()
		term := rt.NewTerminationWith(nil, 0, true)
		_, err := run.t.CallContext(rt.RuntimeContextDef{RequiredFlags: rt.ComplyIoSafe}, func() error {
			return rt.Call(run.t, lf.fn, args, term)
		})
		if err != nil {
			outcome = "error:" + err.Error()
			return
		}
		for _, v := range term.Etc() {
			outcome += v.TypeName() + ";"
			if s, ok := v.TryString(); ok {
				outcome += s + ";"
			}
		}
	}()
	return true, outcome
}

func VerifH_C08_library_walk_iosafe() {
	libIdx := verifChoose("lib", 10)
	fnIdx := verifChoose("fn", 40)
	nargs := verifChoose("nargs", 3)
	var name string
	pick := func(run *vhRun) *vhLibFunc {
		var fs []vhLibFunc
		if libIdx == 9 {
			// the entries of package.searchers
			if pkg, ok := run.r.GlobalEnv().Get(vhStr("package")).TryTable(); ok {
				if st, ok := pkg.Get(vhStr("searchers")).TryTable(); ok {
					for i := int64(1); i <= st.Len(); i++ {
						fs = append(fs, vhLibFunc{"package.searchers", string(rune('0' + i)), st.Get(vhInt(i))})
					}
				}
			}
		} else {
			fs = vhFunctionsOf(run, vhWalkLibs[libIdx])
		}
		if fnIdx >= len(fs) {
			return nil
		}
		name = fs[fnIdx].lib + "." + fs[fnIdx].name
		return &fs[fnIdx]
	}
	vhSentinelPrepare()
	before := verifEffects()
	called, out1 := vhIosafeCall(pick, nargs)
	if !called {
		return
	}
	verifReach("function-called")
	reached := verifEffects() != before || vhSentinelTouched()
	if !verifSymbolic() && !reached {
		// oracle: the same call without the file
		_, out2 := vhIosafeCall(pick, nargs)
		reached = out1 != out2
	}
	verifAssert(!reached, "no-os-primitive-reached-under-iosafe:"+name)
}
