//go:build verif

package lib

import (
	rt "github.com/arnodel/golua/runtime"
)

// C14 — performance build options never change behaviour.  The harnesses of
// this file and the C10 / C11 / C13 corpus harnesses compare the real
// pipeline's trace with the manual's trace; vcheck runs all of them once per
// build-tag set (default, noregpool, nocontpool, noregpool+nocontpool,
// noquotas, safepool), loading the SSA built with those tags.  Every tag set
// must satisfy the same assertions, hence all of them agree.
//
// Pool-stressing shapes: recursion deeper than the 10-entry pools, tail
// recursion, error unwinding through many frames, closures outliving their
// frame, re-entrant calls from Go (pcall / metamethods).

func VerifH_C14_deep_and_tail_recursion() {
	run := vhNewRun()
	a := nondetInt64("a")
	_, err := run.lua(`
local a = ...
local function deep(n, acc) if n == 0 then return acc end return 1 + deep(n - 1, acc) end
local function tail(n, acc) if n == 0 then return acc end return tail(n - 1, acc + a) end
emit(deep(14, a), tail(25, 0))
local function mk(i) local v = a + i return function() v = v + 1 return v end end
local fs = {}
for i = 1, 12 do fs[i] = mk(i) end
emit(fs[1](), fs[12](), fs[1]())
`, vhInt(a))
	verifAssert(err == nil, "chunk-runs")
	verifAssert(vhTraceIs(run.trace, vhInt(a+14), vhInt(25*a), vhInt(a+2), vhInt(a+13), vhInt(a+3)), "recursion-and-closures")
}

func VerifH_C14_error_unwinding_many_frames() {
	run := vhNewRun()
	a := nondetInt64("a")
	_, err := run.lua(`
local a = ...
local function boom(n) if n == 0 then error(a, 0) end return boom(n - 1) + 1 end
for round = 1, 3 do
  local ok, e = pcall(boom, 13)
  emit(ok, e)
end
local mt = {__add = function(x, y) return 100 end, __index = function(t, k) return k end}
local o = setmetatable({}, mt)
emit(o + 1, o.field, select('#', table.unpack({1, 2, 3, a})))
`, vhInt(a))
	verifAssert(err == nil, "chunk-runs")
	f := rt.BoolValue(false)
	verifAssert(vhTraceIs(run.trace, f, vhInt(a), f, vhInt(a), f, vhInt(a), vhInt(100), vhStr("field"), vhInt(4)), "unwinding-and-reentrant-calls")
}
