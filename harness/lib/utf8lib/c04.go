//go:build verif

package utf8lib

import (
	rt "github.com/arnodel/golua/runtime"
)

// C04 — utf8 library: every function on every argument tuple of the stated
// shape returns values or a Lua error; no Go panic escapes.

func vhCallFn(t *rt.Thread, f rt.GoFunctionFunc, nargs int, hasEtc bool, args ...rt.Value) ([]rt.Value, error) {
	gf := rt.NewGoFunction(f, "harness", nargs, hasEtc)
	term := rt.NewTerminationWith(nil, 0, true)
	err := rt.Call(t, rt.FunctionValue(gf), args, term)
	return term.Etc(), err
}

func vhNoCrash(f func()) (crashed bool) {
	defer func() {
		if r := recover(); r != nil {
			if _, ok := r.(rt.ContextTerminationError); ok {
				return
			}
			crashed = true
		}
	}()
	f()
	return false
}

// utf8.char with 1..3 arbitrary integer code points
func VerifH_C04_utf8_char_any_codepoints() {
	r := rt.New(nil)
	t := r.MainThread()
	n := 1 + verifChoose("n", 3)
	args := make([]rt.Value, n)
	for i := range args {
		args[i] = rt.IntValue(nondetInt64("cp"))
	}
	var res []rt.Value
	var err error
	crashed := vhNoCrash(func() { res, err = vhCallFn(t, char, 0, true, args...) })
	verifAssert(!crashed, "no-go-panic-from-utf8.char")
	if !crashed && err == nil {
		verifReach("char-ok")
		s, ok := res[0].TryString()
		verifAssert(len(res) == 1 && ok && len(s) >= n && len(s) <= 6*n, "char-returns-one-string-of-1-to-6-bytes-per-code-point")
	}
}

// codepoint / len / offset / codes on every string of up to 3 bytes and every
// pair of integer positions
func VerifH_C04_utf8_positions() {
	r := rt.New(nil)
	t := r.MainThread()
	s := nondetString("s", verifChoose("s_len", 4))
	i, j := nondetInt64("i"), nondetInt64("j")
	lax := nondetBool("lax")
	which := verifChoose("fn", 4)
	if which == 2 {
		verifAssume(i > -8 && i < 8) // offset's count drives a loop bounded by the string; bound the number of forks
	}
	crashed := vhNoCrash(func() {
		switch which {
		case 0:
			vhCallFn(t, codepoint, 4, false, rt.StringValue(s), rt.IntValue(i), rt.IntValue(j), rt.BoolValue(lax))
		case 1:
			vhCallFn(t, lenf, 4, false, rt.StringValue(s), rt.IntValue(i), rt.IntValue(j), rt.BoolValue(lax))
		case 2:
			vhCallFn(t, offset, 3, false, rt.StringValue(s), rt.IntValue(i), rt.IntValue(j))
		case 3:
			// the iterator returned by utf8.codes, stepped from an arbitrary control value
			res, err := vhCallFn(t, codes, 2, false, rt.StringValue(s), rt.BoolValue(lax))
			if err == nil && len(res) >= 1 {
				for k := 0; k < 5; k++ {
					term := rt.NewTerminationWith(nil, 0, true)
					if rt.Call(t, res[0], []rt.Value{rt.StringValue(s), rt.IntValue(i)}, term) != nil {
						break
					}
				}
			}
		}
	})
	verifAssert(!crashed, "no-go-panic-from-utf8-function")
}
