//go:build verif

package lib

import "os"

// Sentinel file for the native replay of the iosafe walk: it exists with known
// content before the call; a function that opens it for writing, removes or
// renames it is observed afterwards.  Under gosym OS primitives are effect
// events and these helpers see nothing.

const vhWalkSentinel = "/tmp/verif-c08-walk-sentinel"

func vhSentinelPrepare() {
	if verifSymbolic() {
		return
	}
	os.WriteFile(vhWalkSentinel, []byte("S"), 0o644)
	os.Remove("w")
}

func vhSentinelTouched() bool {
	if verifSymbolic() {
		return false
	}
	b, err := os.ReadFile(vhWalkSentinel)
	touched := err != nil || string(b) != "S"
	if err != nil {
		// gone: removed or renamed; leave it absent for the oracle run
	}
	if _, err := os.Stat("w"); err == nil {
		touched = true // renamed to the second argument
		os.Remove("w")
	}
	os.Remove(vhWalkSentinel)
	return touched
}
