//go:build verif

package iolib

import (
	"os"
	"time"

	rt "github.com/arnodel/golua/runtime"
)

// C08-K2 (io library): the real loader is run on a fresh runtime, then every
// function of the io table is called inside a context that requires 'iosafe'.
// Whether the gate refuses the call or the function runs, no OS primitive
// (file open/create/remove, pipe, process start) may be reached.
//
// Under gosym OS primitives are effect events (never executed) and the
// assertion is about reachability; in the native replay the same call is made
// for real with a sentinel path, and the effect is observed on the file system.

var vhIoFuncs = [11]string{"open", "popen", "tmpfile", "lines", "input", "output", "close", "read", "write", "flush", "type"}

const vhSentinel = "/tmp/verif-c08-sentinel"

func VerifH_C08_io_functions_iosafe() {
	r := rt.New(nil)
	pkgv, _ := load(r)
	pkg := pkgv.AsTable()
	name := vhIoFuncs[verifChoose("fn", 11)]
	fv := pkg.Get(rt.StringValue(name))
	verifAssert(!fv.IsNil(), "function-registered")
	before := verifEffects()
	r.PushContext(rt.RuntimeContextDef{RequiredFlags: rt.ComplyIoSafe})
	t := r.MainThread()
	nargs := verifChoose("nargs", 3)
	first := vhSentinel
	if name == "popen" {
		first = "touch " + vhSentinel
	}
	args := []rt.Value{rt.StringValue(first), rt.StringValue("w")}[:nargs]
	term := rt.NewTerminationWith(nil, 0, true)
	if !verifSymbolic() {
		os.Remove(vhSentinel)
	}
	func() {
		defer func() { recover() }() // crashes are C04's subject, not this check's
		_ = rt.Call(t, fv, args, term)
	}()
	reached := verifEffects() != before
	if !verifSymbolic() {
		time.Sleep(300 * time.Millisecond)
		if _, err := os.Stat(vhSentinel); err == nil {
			reached = true
			os.Remove(vhSentinel)
		}
	}
	verifAssertKF(!reached, "no-os-primitive-reached-under-iosafe", name == "popen", "C08-popen-iosafe")
}
