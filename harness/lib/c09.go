//go:build verif

package lib

import (
	rt "github.com/arnodel/golua/runtime"
)

// C09 — coroutines.  Lua scripts using the real coroutine library are run by
// the real pipeline under gosym's goroutine model (every coroutine is a
// goroutine; unbuffered channels rendezvous; mutexes have owners), with
// happens-before race detection on every memory cell and deadlock detection.
// Transferred values are symbolic.

const vhCoScript = `
local a, b, mode = ...
local co
co = coroutine.create(function(x, y)
  emit("start", x, y, coroutine.status(co), coroutine.isyieldable())
  local r1, r2 = coroutine.yield(x + 1, y)
  emit("resumed", r1, r2)
  if mode == 1 then error(b, 0) end
  if mode == 2 then
    local ok, e = coroutine.resume(co)   -- resuming the running coroutine
    emit("self-resume", ok)
  end
  local r3 = coroutine.yield()
  emit("last", r3)
  return "done", a
end)
emit("status0", coroutine.status(co))
emit("res1", coroutine.resume(co, a, b))
emit("status1", coroutine.status(co))
emit("res2", coroutine.resume(co, b, a))
emit("status2", coroutine.status(co))
emit("res3", coroutine.resume(co, a))
emit("status3", coroutine.status(co))
emit("res4", coroutine.resume(co))
emit("main-yield", pcall(coroutine.yield))
`

func VerifH_C09_resume_yield_status() {
	verifEnableRaceDetector()
	run := vhNewRun()
	a, b := nondetInt64("a"), nondetInt64("b")
	mode := int64(verifChoose("mode", 3)) // 0 normal, 1 error inside, 2 resume self
	_, err := run.lua(vhCoScript, vhInt(a), vhInt(b), vhInt(mode))
	verifAssert(err == nil, "script-runs")
	T, F := rt.BoolValue(true), rt.BoolValue(false)
	var want []rt.Value
	add := func(vs ...rt.Value) { want = append(want, vs...) }
	add(vhStr("status0"), vhStr("suspended"))
	add(vhStr("start"), vhInt(a), vhInt(b), vhStr("running"), T)
	add(vhStr("res1"), T, vhInt(a+1), vhInt(b))
	add(vhStr("status1"), vhStr("suspended"))
	add(vhStr("resumed"), vhInt(b), vhInt(a))
	switch mode {
	case 1: // the error kills the coroutine and is delivered to the resumer
		add(vhStr("res2"), F, vhInt(b))
		add(vhStr("status2"), vhStr("dead"))
		add(vhStr("res3"), F, vhStr("cannot resume dead coroutine"))
		add(vhStr("status3"), vhStr("dead"))
		add(vhStr("res4"), F, vhStr("cannot resume dead coroutine"))
	default:
		if mode == 2 {
			add(vhStr("self-resume"), F)
		}
		add(vhStr("res2"), T)
		add(vhStr("status2"), vhStr("suspended"))
		add(vhStr("last"), vhInt(a))
		add(vhStr("res3"), T, vhStr("done"), vhInt(a))
		add(vhStr("status3"), vhStr("dead"))
		add(vhStr("res4"), F, vhStr("cannot resume dead coroutine"))
	}
	add(vhStr("main-yield"), F)
	// compare, tolerating the exact wording of error messages
	got := run.trace
	verifAssert(len(got) >= len(want), "trace-length")
	ok := len(got) >= len(want)
	gi := 0
	for wi := 0; ok && wi < len(want); wi++ {
		w := want[wi]
		if s, isS := w.TryString(); isS && s == "cannot resume dead coroutine" {
			_, gs := got[gi].TryString()
			ok = gs
		} else {
			ok = vhSame(got[gi], w)
		}
		gi++
	}
	verifAssert(ok, "coroutine-trace-as-the-manual-prescribes")
	verifAssert(verifLiveGoroutines() == 0, "no-goroutine-left-behind")
}

// wrap, nested resume ("normal" status) and close of a suspended coroutine
// with a pending to-be-closed variable
func VerifH_C09_wrap_nested_close() {
	verifEnableRaceDetector()
	run := vhNewRun()
	a := nondetInt64("a")
	_, err := run.lua(`
local a = ...
local outer
local inner = coroutine.create(function() emit("outer-status-from-inner", coroutine.status(outer)); coroutine.yield(a) end)
outer = coroutine.create(function()
  emit("inner", coroutine.resume(inner))
  coroutine.yield("o1")
end)
emit("outer", coroutine.resume(outer))
local gen = coroutine.wrap(function(x) local y = coroutine.yield(x * 2) return y + 1 end)
emit("wrap", gen(a), gen(a))
local c = coroutine.create(function()
  local guard <close> = setmetatable({}, {__close = function() emit("closed") end})
  coroutine.yield("suspended-with-pending-close")
  emit("never")
end)
emit("c1", coroutine.resume(c))
emit("close", coroutine.close(c), coroutine.status(c))
emit("close-again", coroutine.close(c))
`, vhInt(a))
	verifAssert(err == nil, "script-runs")
	T := rt.BoolValue(true)
	verifAssert(vhTraceIs(run.trace,
		vhStr("outer-status-from-inner"), vhStr("normal"),
		vhStr("inner"), T, vhInt(a),
		vhStr("outer"), T, vhStr("o1"),
		vhStr("wrap"), vhInt(2*a), vhInt(a+1),
		vhStr("c1"), T, vhStr("suspended-with-pending-close"),
		vhStr("closed"),
		vhStr("close"), T, vhStr("dead"),
		vhStr("close-again"), T), "wrap-nested-close-trace")
}

// one thread at a time: when a coroutine finishes (or fails), nothing it still
// does may overlap with the resumer, which immediately goes on using the
// runtime (a protected call pushes a context; allocation is accounted).
func VerifH_C09_finish_handoff_is_race_free() {
	verifEnableRaceDetector()
	run := vhNewRun()
	a := nondetInt64("a")
	fails := verifChoose("fails", 2) == 1
	src := `
local a, fails = ...
local co = coroutine.create(function(x) if fails then error(x, 0) end return x end)
local ok, v = coroutine.resume(co, a)
local ok2, t = pcall(function() return {v, v, v} end)
emit(ok, v, ok2, #t)
`
	// inside a context with a memory limit, so that accounting is live
	var err error
	_, cerr := run.t.CallContext(rt.RuntimeContextDef{HardLimits: rt.RuntimeResources{Memory: 1 << 30}}, func() error {
		_, err = run.lua(src, vhInt(a), rt.BoolValue(fails))
		return nil
	})
	verifAssert(err == nil && cerr == nil, "script-runs")
	verifAssert(vhTraceIs(run.trace, rt.BoolValue(!fails), vhInt(a), rt.BoolValue(true), vhInt(3)), "values-transferred")
	verifAssert(verifLiveGoroutines() == 0, "no-goroutine-left-behind")
}

// coroutine.close in every state a closable coroutine can be in: never
// resumed, suspended at a yield, finished, failed.  Afterwards the coroutine
// is dead, cannot be resumed, and its goroutine is gone.
func VerifH_C09_close_in_any_state() {
	verifEnableRaceDetector()
	run := vhNewRun()
	a := nondetInt64("a")
	state := int64(verifChoose("state", 4))
	_, err := run.lua(`
local a, state = ...
local co = coroutine.create(function(x)
  if state == 1 then coroutine.yield(x) end
  if state == 3 then error(x, 0) end
  return x
end)
if state ~= 0 then emit("r", coroutine.resume(co, a)) end
emit("close", coroutine.close(co))
emit("status", coroutine.status(co))
emit("resume-after-close", (coroutine.resume(co)))
emit("close-again", (coroutine.close(co)))
`, vhInt(a), vhInt(state))
	verifAssert(err == nil, "script-runs")
	T, F := rt.BoolValue(true), rt.BoolValue(false)
	var want []rt.Value
	switch state {
	case 1, 2:
		want = append(want, vhStr("r"), T, vhInt(a))
	case 3:
		want = append(want, vhStr("r"), F, vhInt(a))
	}
	if state == 3 {
		// closing a coroutine that died with an error returns false and the error
		want = append(want, vhStr("close"), F, vhInt(a))
	} else {
		want = append(want, vhStr("close"), T)
	}
	want = append(want, vhStr("status"), vhStr("dead"), vhStr("resume-after-close"), F)
	got := run.trace
	okPrefix := len(got) == len(want)+2
	for i := 0; okPrefix && i < len(want); i++ {
		okPrefix = vhSame(got[i], want[i])
	}
	verifAssert(okPrefix, "close-trace-as-the-manual-prescribes")
	verifAssert(verifLiveGoroutines() == 0, "closed-coroutine-leaves-no-goroutine")
}

// resume and close of a coroutine with pending to-be-closed variables report the
// final error (the handler's error replaces the body's), also on a second
// close; see vhCoroutineCloseTrace in c10.go
func VerifH_C09_close_reports_final_error() {
	verifEnableRaceDetector()
	vhCoroutineCloseTrace()
	verifAssert(verifLiveGoroutines() == 0, "no-goroutine-left-behind")
}

// a function made by coroutine.wrap in one coroutine and called from another:
// the values go to the caller (not to the creator), the consumer finishes, and
// error handlers seen by a coroutine are those in force where it is resumed
func VerifH_C09_wrap_called_from_another_coroutine() {
	verifEnableRaceDetector()
	vhWrapAcrossCoroutines()
	verifAssert(verifLiveGoroutines() == 0, "no-goroutine-left-behind")
}

func vhWrapAcrossCoroutines() {
	run := vhNewRun()
	a := nondetInt64("a")
	_, err := run.lua(`
local a = ...
local gen = coroutine.wrap(function() coroutine.yield(a) coroutine.yield(a + 1) return "end" end)
local consumer = coroutine.create(function()
  local v1 = gen()
  emit("consumer-got", v1)
  local r = coroutine.yield("paused")
  emit("consumer-resumed", r, gen(), gen())
  return "consumer-done"
end)
emit("main", coroutine.resume(consumer))
emit("status", coroutine.status(consumer))
emit("main", coroutine.resume(consumer, "go"))
emit("status", coroutine.status(consumer))
-- a coroutine started outside xpcall and failing when resumed inside it: the handler in force at the failing resume runs once
local calls = 0
local failing = coroutine.wrap(function() coroutine.yield("started") error(a, 0) end)
emit("first", failing())
emit("xpcall", xpcall(failing, function(e) calls = calls + 1 return e, "handled" end))
emit("calls", calls)
`, vhInt(a))
	verifAssert(err == nil, "script-runs")
	T, F := rt.BoolValue(true), rt.BoolValue(false)
	verifAssert(vhTraceIs(run.trace,
		vhStr("consumer-got"), vhInt(a),
		vhStr("main"), T, vhStr("paused"),
		vhStr("status"), vhStr("suspended"),
		vhStr("consumer-resumed"), vhStr("go"), vhInt(a+1), vhStr("end"),
		vhStr("main"), T, vhStr("consumer-done"),
		vhStr("status"), vhStr("dead"),
		vhStr("first"), vhStr("started"),
		vhStr("xpcall"), F, vhInt(a),
		vhStr("calls"), vhInt(1)), "wrap-and-handlers-across-coroutines")
}
