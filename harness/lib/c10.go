//go:build verif

package lib

import (
	rt "github.com/arnodel/golua/runtime"
)

// C10 — to-be-closed variables: closed exactly once, in reverse order, on
// every exit, with the in-flight error; a handler error replaces it and the
// remaining handlers still run.  Which handlers raise and how the scope is
// left are symbolic arguments of the snippet.

const vhCloseSnippet = `
local raiseA, raiseB, exitkind = ...
local function mk(name, raise)
  return setmetatable({}, {__close = function(_, e)
    emit(name, e)
    if raise then error(name .. "!", 0) end
  end})
end
local function f()
  local a <close> = mk("a", raiseA)
  local b <close> = mk("b", raiseB)
  if exitkind == 1 then return "ret" end
  if exitkind == 2 then error("E", 0) end
  for i = 1, 2 do
    local c <close> = mk("c", false)
    if exitkind == 3 then break end
    if exitkind == 4 then goto out end
  end
  ::out::
  emit("after-loop")
  return "end"
end
emit(pcall(f))
`

func VerifH_C10_close_order_and_errors() {
	run := vhNewRun()
	raiseA, raiseB := nondetBool("raiseA"), nondetBool("raiseB")
	exitkind := int64(verifChoose("exitkind", 5)) // 0 fall through, 1 return, 2 error, 3 break, 4 goto
	_, err := run.lua(vhCloseSnippet, rt.BoolValue(raiseA), rt.BoolValue(raiseB), vhInt(exitkind))
	verifAssert(err == nil, "chunk-runs")
	// the manual's trace
	var want []rt.Value
	nilv := rt.NilValue
	inflight := nilv
	switch exitkind {
	case 0: // both iterations complete: c closed twice, then after-loop
		want = append(want, vhStr("c"), nilv, vhStr("c"), nilv, vhStr("after-loop"))
	case 3, 4: // first iteration leaves the loop: c closed once
		want = append(want, vhStr("c"), nilv, vhStr("after-loop"))
	case 2:
		inflight = vhStr("E")
	}
	// leaving f: b then a, each seeing the error in flight
	want = append(want, vhStr("b"), inflight)
	if raiseB {
		inflight = vhStr("b!")
	}
	want = append(want, vhStr("a"), inflight)
	if raiseA {
		inflight = vhStr("a!")
	}
	// pcall's results
	if inflight.IsNil() {
		res := "end"
		if exitkind == 1 {
			res = "ret"
		}
		want = append(want, rt.BoolValue(true), vhStr(res))
	} else {
		want = append(want, rt.BoolValue(false), inflight)
	}
	verifAssert(vhTraceIs(run.trace, want...), "close-trace-as-the-manual-prescribes")
}

// a to-be-closed value without __close (other than nil / false) is an error;
// nil and false are accepted and ignored
func VerifH_C10_close_value_check() {
	run := vhNewRun()
	k := verifChoose("kind", 4)
	var v rt.Value
	switch k {
	case 0:
		v = rt.NilValue
	case 1:
		v = rt.BoolValue(false)
	case 2:
		v = vhInt(nondetInt64("n"))
	case 3:
		v = rt.TableValue(rt.NewTable())
	}
	_, err := run.lua(`
local v = ...
local ok, e = pcall(function() local x <close> = v; emit("in") end)
emit(ok)
`, v)
	verifAssert(err == nil, "chunk-runs")
	if k <= 1 {
		verifAssert(vhTraceIs(run.trace, vhStr("in"), rt.BoolValue(true)), "nil-and-false-accepted")
	} else {
		verifAssert(vhTraceIs(run.trace, rt.BoolValue(false)), "non-closable-value-rejected-before-the-body")
	}
}

// a pending close disables the tail call: the handler runs after the callee,
// wherever in the function's nested scopes the return statement sits
var vhTailShapes = [6]string{
	`return g(n)`,
	`if n == n then return g(n) end`,
	`local y = 1
  return g(n)`,
	`do return g(n) end`,
	`for i = 1, 1 do
    local b <close> = mk()
    if i == 1 then return g(n) end
  end`,
	`while true do
    local y = n
    do return g(y) end
  end`,
}

func VerifH_C10_close_disables_tail_call() {
	run := vhNewRun()
	n := nondetInt64("n")
	shape := verifChoose("shape", 6)
	_, err := run.lua(`
local n = ...
local function g(x) emit("g", x) return x end
local function mk() return setmetatable({}, {__close = function() emit("closed") end}) end
local function f()
  local a <close> = mk()
  `+vhTailShapes[shape]+`
end
emit(f())
`, vhInt(n))
	verifAssert(err == nil, "chunk-runs")
	if shape == 4 {
		verifAssert(vhTraceIs(run.trace, vhStr("g"), vhInt(n), vhStr("closed"), vhStr("closed"), vhInt(n)), "both-handlers-run-after-the-called-function-returns")
		return
	}
	verifAssert(vhTraceIs(run.trace, vhStr("g"), vhInt(n), vhStr("closed"), vhInt(n)), "handler-runs-after-the-called-function-returns")
}

// to-be-closed variables of a coroutine: when the coroutine dies from an error
// every pending handler receives that error (the handler's own error replaces
// it for the next one), when a suspended coroutine is closed every pending
// variable of every frame — also those declared inside a protected call — is
// closed exactly once in reverse order, and resume / close report the final
// error
func VerifH_C10_close_in_coroutines() { vhCoroutineCloseTrace() }

func vhCoroutineCloseTrace() {
	run := vhNewRun()
	e := vhInt(nondetInt64("e"))
	raiseB := nondetBool("raiseB")
	mode := int64(verifChoose("mode", 3)) // 0 dies by error, 1 closed while suspended, 2 closed while suspended inside pcall
	_, err := run.lua(`
local E, raiseB, mode = ...
local function mk(name, raise)
  return setmetatable({}, {__close = function(_, err)
    emit(name, err)
    if raise then error(name .. "!", 0) end
  end})
end
local co = coroutine.create(function()
  local a <close> = mk("a", false)
  local function inner()
    local b <close> = mk("b", raiseB)
    if mode == 0 then error(E, 0) end
    coroutine.yield("suspended")
  end
  if mode == 2 then pcall(inner) else inner() end
  emit("never")
end)
emit("resume", coroutine.resume(co))
emit("close", coroutine.close(co))
emit("status", coroutine.status(co))
emit("close-again", coroutine.close(co))
`, e, rt.BoolValue(raiseB), vhInt(mode))
	verifAssert(err == nil, "chunk-runs")
	T, F, nilv := rt.BoolValue(true), rt.BoolValue(false), rt.NilValue
	var want []rt.Value
	add := func(vs ...rt.Value) { want = append(want, vs...) }
	final := nilv
	if mode == 0 {
		// dies by error: b sees E, then a sees E or b's own error
		final = e
		add(vhStr("b"), e)
		if raiseB {
			final = vhStr("b!")
		}
		add(vhStr("a"), final)
		add(vhStr("resume"), F, final)
		add(vhStr("close"), F, final)
		add(vhStr("status"), vhStr("dead"))
		add(vhStr("close-again"), F, final)
	} else {
		add(vhStr("resume"), T, vhStr("suspended"))
		add(vhStr("b"), nilv)
		if raiseB {
			final = vhStr("b!")
		}
		add(vhStr("a"), final)
		if raiseB {
			add(vhStr("close"), F, final)
			add(vhStr("status"), vhStr("dead"))
			add(vhStr("close-again"), F, final)
		} else {
			add(vhStr("close"), T)
			add(vhStr("status"), vhStr("dead"))
			add(vhStr("close-again"), T)
		}
	}
	verifAssert(vhTraceIs(run.trace, want...), "coroutine-close-trace-as-the-manual-prescribes")
}
