//go:build verif

package lib

import (
	rt "github.com/arnodel/golua/runtime"
)

// C11 — errors reach exactly the nearest protected call with their value
// intact.  The error value (every kind, symbolic payload) and the raise depth
// are symbolic.

func vhErrValue(run *vhRun, tag string) rt.Value {
	switch verifChoose(tag+"_kind", 6) {
	case 0:
		return vhInt(nondetInt64(tag + "_i"))
	case 1:
		return rt.FloatValue(nondetFloat64(tag + "_f"))
	case 2:
		return rt.BoolValue(nondetBool(tag + "_b"))
	case 3:
		return rt.TableValue(rt.NewTable())
	case 4:
		return rt.NilValue
	}
	return vhStr("msg-" + nondetString(tag+"_s", 1))
}

// error(v) delivers v itself (tables by identity) to the nearest pcall and to
// nothing further out; afterwards the program continues in a consistent state.
func VerifH_C11_error_value_intact_nearest_pcall() {
	run := vhNewRun()
	v := vhErrValue(run, "v")
	depth := int64(verifChoose("depth", 3)) // raise 0, 1 or 2 calls below the inner pcall
	_, err := run.lua(`
local v, depth = ...
local function raise(d) if d == 0 then error(v, 0) else return raise(d - 1), 1 end end
local ok2, r2 = pcall(function()
  local ok1, r1 = pcall(raise, depth)
  emit("inner", ok1, r1)
  return "outer-unaffected"
end)
emit("outer", ok2, r2)
-- state is consistent: later calls, loops and protected calls work
local t = {}
for i = 1, 3 do t[i] = i end
emit(#t, (pcall(error, "x")))
`, v, vhInt(depth))
	verifAssert(err == nil, "chunk-runs")
	verifAssert(vhTraceIs(run.trace,
		vhStr("inner"), rt.BoolValue(false), v,
		vhStr("outer"), rt.BoolValue(true), vhStr("outer-unaffected"),
		vhInt(3), rt.BoolValue(false)), "error-value-intact-and-caught-once")
}

// pcall returns true plus all results; xpcall's handler runs once with the
// error value and its result replaces it
func VerifH_C11_pcall_results_and_xpcall_handler() {
	run := vhNewRun()
	a, b := nondetInt64("a"), nondetInt64("b")
	v := vhErrValue(run, "v")
	_, err := run.lua(`
local a, b, v = ...
emit(pcall(function(...) return ... end, a, b, nil, a))
local calls = 0
emit(xpcall(function() error(v, 0) end, function(e) calls = calls + 1; emit("handler", e); return "handled", "extra" end))
emit(calls)
emit(xpcall(function(x) return x, b end, function() emit("never") end, a))
`, vhInt(a), vhInt(b), v)
	verifAssert(err == nil, "chunk-runs")
	verifAssert(vhTraceIs(run.trace,
		rt.BoolValue(true), vhInt(a), vhInt(b), rt.NilValue, vhInt(a),
		vhStr("handler"), v,
		rt.BoolValue(false), vhStr("handled"),
		vhInt(1),
		rt.BoolValue(true), vhInt(a), vhInt(b)), "pcall-and-xpcall-contract")
}

// string messages raised at level 1 are prefixed with chunk name and line;
// level 0 and non-string values are untouched; runtime errors carry a position
func VerifH_C11_position_prefix() {
	run := vhNewRun()
	n := nondetInt64("n")
	_, err := run.lua(`local n = ...
local ok, e = pcall(function()
  error("boom")
end)
emit(e)
ok, e = pcall(function() error("plain", 0) end)
emit(e)
ok, e = pcall(function() error(n) end)
emit(e)
ok, e = pcall(function() local x = nil; return x.field end)
emit(type(e), e:sub(1, 9))
`, vhInt(n))
	verifAssert(err == nil, "chunk-runs")
	verifAssert(vhTraceIs(run.trace,
		vhStr("corpus:3: boom"),
		vhStr("plain"),
		vhInt(n),
		vhStr("string"), vhStr("corpus:10")), "position-prefix-rules")
}

// nested protected calls with different handlers: an error is handled by the
// message handler of the nearest enclosing xpcall only — a handler of an inner
// scope that has already completed is never applied to an error of an
// enclosing scope, and a plain pcall delivers the raw value
func VerifH_C11_nested_scopes_nearest_handler() {
	run := vhNewRun()
	v := vhInt(nondetInt64("v"))
	k := int64(verifChoose("k", 5)) // which scope raises: 0 none, 1 outer pcall, 2 middle xpcall, 3 inner pcall, 4 outermost xpcall
	_, err := run.lua(`
local v, k = ...
emit("r0", xpcall(function()
  emit("r1", pcall(function()
    emit("r2", xpcall(function()
      emit("r3", pcall(function() if k == 3 then error(v, 0) end return "done3" end))
      if k == 2 then error(v, 0) end
      return "done2"
    end, function(e) emit("h2", e) return "H2" end))
    if k == 1 then error(v, 0) end
    return "done1"
  end))
  if k == 4 then error(v, 0) end
  return "done0"
end, function(e) emit("h0", e) return "H0" end))
`, v, vhInt(k))
	verifAssert(err == nil, "chunk-runs")
	T, F := rt.BoolValue(true), rt.BoolValue(false)
	var want []rt.Value
	add := func(vs ...rt.Value) { want = append(want, vs...) }
	if k == 3 {
		add(vhStr("r3"), F, v)
	} else {
		add(vhStr("r3"), T, vhStr("done3"))
	}
	if k == 2 {
		add(vhStr("h2"), v, vhStr("r2"), F, vhStr("H2"))
	} else {
		add(vhStr("r2"), T, vhStr("done2"))
	}
	if k == 1 {
		add(vhStr("r1"), F, v)
	} else {
		add(vhStr("r1"), T, vhStr("done1"))
	}
	if k == 4 {
		add(vhStr("h0"), v, vhStr("r0"), F, vhStr("H0"))
	} else {
		add(vhStr("r0"), T, vhStr("done0"))
	}
	verifAssert(vhTraceIs(run.trace, want...), "error-handled-by-the-nearest-enclosing-scope-only")
}

// runtime errors carry the line of the statement that failed, for loads and
// stores alike, also when earlier call-free statements precede it in the
// function
func VerifH_C11_runtime_error_positions() {
	run := vhNewRun()
	n := nondetInt64("n")
	_, err := run.lua(`local n = ...
local function store_field()
  local t = nil
  local x = n + 1
  local y = x * 2
  t.k = y
end
local function store_nil_key()
  local t = {}
  local k = nil
  local x = n
  t[k] = x
end
local function load_field()
  local t = nil
  local x = n + 1
  return t.k, x
end
local function arith()
  local t = {}
  local x = n
  return x + t
end
for _, f in ipairs{store_field, store_nil_key, load_field, arith} do
  local ok, e = pcall(f)
  emit(ok, type(e), e:match("^corpus:(%d+):"))
end
`, vhInt(n))
	verifAssert(err == nil, "chunk-runs")
	F, S := rt.BoolValue(false), vhStr("string")
	verifAssert(vhTraceIs(run.trace,
		F, S, vhStr("6"),
		F, S, vhStr("12"),
		F, S, vhStr("17"),
		F, S, vhStr("22")), "runtime-errors-name-the-failing-line")
}

// the message handler that runs for an error raised in a coroutine is the one
// in force where the failing resume happens (see vhWrapAcrossCoroutines in c09.go)
func VerifH_C11_handler_in_force_at_the_failing_resume() {
	vhWrapAcrossCoroutines()
}
