//go:build verif

package ast

// C12 — \u{XXX} escapes: the decoder of escape sequences (replaceEscapeSeq, the
// function the parser applies to every escape the scanner accepted) maps every
// code point written with 1-6 hexadecimal digits, upper or lower case, to its
// UTF-8 encoding in the extended form of the manual (up to 6 bytes, 2^31) —
// surrogates included, nothing is replaced.

const vhHexDigits = "0123456789abcdefABCDEF"

func specUTF8(x uint32) []byte {
	switch {
	case x < 0x80:
		return []byte{byte(x)}
	case x < 0x800:
		return []byte{0xC0 | byte(x>>6), 0x80 | byte(x&0x3F)}
	case x < 0x10000:
		return []byte{0xE0 | byte(x>>12), 0x80 | byte((x>>6)&0x3F), 0x80 | byte(x&0x3F)}
	case x < 0x200000:
		return []byte{0xF0 | byte(x>>18), 0x80 | byte((x>>12)&0x3F), 0x80 | byte((x>>6)&0x3F), 0x80 | byte(x&0x3F)}
	case x < 0x4000000:
		return []byte{0xF8 | byte(x>>24), 0x80 | byte((x>>18)&0x3F), 0x80 | byte((x>>12)&0x3F), 0x80 | byte((x>>6)&0x3F), 0x80 | byte(x&0x3F)}
	}
	return []byte{0xFC | byte(x>>30), 0x80 | byte((x>>24)&0x3F), 0x80 | byte((x>>18)&0x3F), 0x80 | byte((x>>12)&0x3F), 0x80 | byte((x>>6)&0x3F), 0x80 | byte(x&0x3F)}
}

func VerifH_C12_unicode_escape_decoding() {
	ndigits := 1 + verifChoose("ndigits", 6)
	var cp uint32
	e := []byte{'\\', 'u', '{'}
	for i := 0; i < ndigits; i++ {
		nib := nondetByte("nib") & 15
		cp = cp<<4 | uint32(nib)
		var d byte
		switch {
		case nib < 10:
			d = '0' + nib
		case nondetBool("upper"):
			d = 'A' + nib - 10
		default:
			d = 'a' + nib - 10
		}
		e = append(e, d)
	}
	e = append(e, '}')
	got := replaceEscapeSeq(e)
	want := specUTF8(cp)
	verifAssert(len(got) == len(want), "unicode-escape-has-the-length-of-the-utf8-encoding")
	if len(got) != len(want) {
		return
	}
	for i := range want {
		verifAssert(got[i] == want[i], "unicode-escape-is-the-utf8-encoding-of-the-code-point")
	}
	verifReach("decoded")
}
