package main

import (
	"encoding/json"
	"fmt"
	"os"
	"path/filepath"
	"time"

	"golang.org/x/tools/go/ssa"
	"verif/engine/gosym"
)

// doReplay re-runs a recorded counterexample against the real build.
func doReplay(path, repo, vdir string) int {
	b, err := os.ReadFile(path)
	if err != nil {
		fatal(2, "%v", err)
	}
	var rec struct {
		Property string            `json:"property"`
		Harness  string            `json:"harness"`
		Pkg      string            `json:"pkg"`
		Label    string            `json:"label"`
		Kind     string            `json:"kind"`
		Assign   map[string]string `json:"assign"`
		Tier     string            `json:"tier"`
		Tags     string            `json:"tags"`
	}
	if err := json.Unmarshal(b, &rec); err != nil {
		fatal(2, "%v", err)
	}
	genDir := filepath.Join(vdir, "gen", "replay-"+rec.Property)
	l, err := gosym.Load(repo, filepath.Join(vdir, "harness"), []string{rec.Pkg}, rec.Tags, genDir)
	if err != nil {
		fatal(2, "load: %v", err)
	}
	var pk *ssa.Package
	if rec.Pkg == "." {
		pk = l.Pkgs[gosym.RepoModule]
	} else {
		pk = l.Pkgs[gosym.RepoModule+"/"+rec.Pkg]
	}
	nb, err := gosym.BuildNative(l, repo, rec.Pkg, genDir, rec.Tags, pk)
	if err != nil {
		fatal(2, "%v", err)
	}
	if rec.Kind == "work" {
		nb.Deadline = 20 * time.Second
	}
	outcome, raw, _ := nb.RunSingle(rec.Harness, rec.Assign, rec.Tier)
	fmt.Println(raw)
	fmt.Printf("harness=%s label=%s kind=%s native outcome: %s\n", rec.Harness, rec.Label, rec.Kind, outcome)
	v := &gosym.Violation{Label: rec.Label, Kind: rec.Kind}
	if confirms(v, outcome) {
		fmt.Println("REPRODUCED")
		return 1
	}
	fmt.Println("not reproduced")
	return 0
}
