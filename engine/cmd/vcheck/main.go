package main

import (
	"flag"
	"fmt"
	"os"
	"strings"
	"time"

	"golang.org/x/tools/go/ssa"
	"verif/engine/gosym"
)

func main() {
	var (
		pkgs    = flag.String("pkgs", "runtime", "comma-separated repo-relative package dirs")
		run     = flag.String("run", "VerifH_", "harness name prefix")
		tier    = flag.String("tier", "quick", "quick|thorough")
		solver  = flag.String("solver", "cvc5", "cvc5|z3-new|z3")
		timeout = flag.Int("timeout", 30000, "per-query timeout ms")
		workers = flag.Int("workers", 16, "workers")
		tags    = flag.String("tags", "verif", "build tags")
		repo    = flag.String("repo", "/repo", "repository")
		hdir    = flag.String("harness", "/verif/harness", "harness dir")
		maxp    = flag.Int("maxpaths", 20000, "max paths per harness")
	)
	flag.Parse()
	t0 := time.Now()
	reldirs := strings.Split(*pkgs, ",")
	l, err := gosym.Load(*repo, *hdir, reldirs, *tags, "")
	if err != nil {
		fmt.Fprintln(os.Stderr, err)
		os.Exit(2)
	}
	fmt.Fprintf(os.Stderr, "loaded in %v\n", time.Since(t0))
	var hp []*ssa.Package
	for _, rd := range reldirs {
		p := l.Pkgs[gosym.RepoModule+"/"+rd]
		if p == nil {
			fmt.Fprintln(os.Stderr, "no package", rd)
			os.Exit(2)
		}
		hp = append(hp, p)
	}
	fns := gosym.FindHarnesses(hp, strings.Split(*run, ",")...)
	cfg := gosym.RunConfig{Workers: *workers, SolverKind: *solver, TimeoutMs: *timeout, MaxPathsPerHarness: *maxp, Tier: *tier, InitPkgs: hp}
	runs, stats, err := gosym.RunHarnesses(l, fns, cfg)
	if err != nil {
		fmt.Fprintln(os.Stderr, err)
		os.Exit(2)
	}
	for _, f := range fns {
		h := runs[f.Name()]
		fmt.Println(h.Summary())
		for _, v := range h.Violations {
			fmt.Printf("  VIOL %s %s: %s\n", v.Kind, v.Label, v.Msg)
			for k, m := range v.Model {
				fmt.Printf("     %s = %#x\n", k, m.Lo)
			}
		}
	}
	fmt.Printf("solver: %+v\nwall %v\n", *stats, time.Since(t0))
}
