// vcheck decides the golua properties by bounded symbolic execution of the
// repository's Go SSA (package gosym) and an SMT solver.
package main

import (
	"encoding/json"
	"flag"
	"fmt"
	"hash/fnv"
	"os"
	"path/filepath"
	"sort"
	"strconv"
	"strings"
	"time"

	"golang.org/x/tools/go/ssa"
	"verif/engine/gosym"
)

type PropMeta struct {
	Pkgs        []string          `json:"pkgs"`
	Tags        string            `json:"tags"`
	TimeoutMs   int               `json:"timeout_ms"`
	ThoroughTimeoutMs int         `json:"thorough_timeout_ms"`
	MaxPaths    int               `json:"max_paths"`
	MaxDecisions int              `json:"max_decisions"`
	Bounds      map[string]string `json:"bounds"`
	Assumptions []string          `json:"assumptions"`
	Outside     []string          `json:"outside"`
	ValidateN   int               `json:"validate_n"`
	AllocBound  int               `json:"alloc_bound"`
	WorkBound   int               `json:"work_bound"`
	MaxSteps    int64             `json:"max_steps"`
	AllocEventIsPanic bool        `json:"alloc_event_is_panic"`
	NativeRace  bool              `json:"native_race"` // build the native replay binary with the race detector
	SolverArgs  map[string][]string `json:"solver_args"`
	TagSets     []string          `json:"tag_sets"`     // run the property once per tag set (C14)
	Prefixes    []string          `json:"prefixes"`     // harness name prefixes (default VerifH_<ID>_)
	NoValidate  []string          `json:"no_validate"` // harnesses excluded from translator validation (with reason in props)
}

type KnownFinding struct {
	ID       string `json:"id"`
	Property string `json:"property"`
	Status   string `json:"status"` // "open" or "fixed"
	Commit   string `json:"commit,omitempty"`
	Text     string `json:"text"`
}

func fatal(code int, format string, a ...interface{}) {
	fmt.Fprintf(os.Stderr, format+"\n", a...)
	os.Exit(code)
}

func main() {
	var (
		prop    = flag.String("property", "", "property id (C01..C20)")
		tier    = flag.String("tier", "", "quick|thorough (default $VERIF_TIER or quick)")
		pkgs    = flag.String("pkgs", "", "dev: comma-separated repo-relative package dirs")
		run     = flag.String("run", "", "dev: harness name prefix filter")
		solver  = flag.String("solver", "cvc5", "cvc5|z3-new|z3")
		timeout = flag.Int("timeout", 0, "per-query timeout ms (override)")
		workers = flag.Int("workers", 16, "workers")
		repo    = flag.String("repo", "/repo", "repository")
		vdir    = flag.String("verif", "/verif", "verif dir")
		replay  = flag.String("replay", "", "replay file")
		noNative = flag.Bool("nonative", false, "dev: skip native build/replay/validation")
		verbose = flag.Bool("v", false, "verbose")
		tagset  = flag.Int("tagset", -1, "internal: index into tag_sets")
	)
	flag.Parse()
	if *tier == "" {
		*tier = os.Getenv("VERIF_TIER")
		if *tier == "" {
			*tier = "quick"
		}
	}
	seed := 0
	if s := os.Getenv("VERIF_SEED"); s != "" {
		seed, _ = strconv.Atoi(s)
	}
	hdir := filepath.Join(*vdir, "harness")
	if *replay != "" {
		os.Exit(doReplay(*replay, *repo, *vdir))
	}
	metas := map[string]*PropMeta{}
	if b, err := os.ReadFile(filepath.Join(hdir, "props.json")); err == nil {
		if err := json.Unmarshal(b, &metas); err != nil {
			fatal(2, "props.json: %v", err)
		}
	}
	meta := metas[*prop]
	if meta == nil {
		meta = &PropMeta{}
	}
	if *pkgs != "" {
		meta.Pkgs = strings.Split(*pkgs, ",")
	}
	if len(meta.Pkgs) == 0 {
		fatal(2, "no packages for property %q", *prop)
	}
	if meta.Tags == "" {
		meta.Tags = "verif"
	}
	if len(meta.TagSets) > 0 && *tagset < 0 && *pkgs == "" {
		os.Exit(runTagSets(*prop, *tier, meta, *vdir, *verbose))
	}
	evName := *prop
	if *tagset >= 0 {
		meta.Tags = meta.TagSets[*tagset]
		evName = fmt.Sprintf("%s.tagset%d", *prop, *tagset)
	}
	tmo := meta.TimeoutMs
	if *tier == "thorough" && meta.ThoroughTimeoutMs > 0 {
		tmo = meta.ThoroughTimeoutMs
	}
	if tmo == 0 {
		tmo = 60000
	}
	if *timeout > 0 {
		tmo = *timeout
	}
	t0 := time.Now()
	genDir := filepath.Join(*vdir, "gen", evName)
	os.RemoveAll(genDir)
	l, err := gosym.Load(*repo, hdir, meta.Pkgs, meta.Tags, genDir)
	if err != nil {
		fatal(2, "load: %v", err)
	}
	loadT := time.Since(t0)
	var hp []*ssa.Package
	for _, rd := range meta.Pkgs {
		p := l.Pkgs[gosym.RepoModule+"/"+rd]
		if rd == "." {
			p = l.Pkgs[gosym.RepoModule]
		}
		if p == nil {
			fatal(2, "no package %s", rd)
		}
		hp = append(hp, p)
	}
	prefixes := []string{"VerifH_" + *prop + "_"}
	if *tier == "thorough" {
		prefixes = append(prefixes, "VerifT_"+*prop+"_")
	}
	if len(meta.Prefixes) > 0 {
		prefixes = meta.Prefixes
	}
	if *run != "" {
		prefixes = strings.Split(*run, ",")
	}
	fns := gosym.FindHarnesses(hp, prefixes...)
	if len(fns) == 0 {
		fatal(2, "no harness functions with prefixes %v", prefixes)
	}
	// known findings
	var kfs []KnownFinding
	if b, err := os.ReadFile(filepath.Join(*vdir, "known_findings.json")); err == nil {
		if err := json.Unmarshal(b, &kfs); err != nil {
			fatal(2, "known_findings.json: %v", err)
		}
	}
	knownIDs := map[string]bool{}
	kfByID := map[string]KnownFinding{}
	for _, k := range kfs {
		kfByID[k.ID] = k
		if k.Status == "open" {
			knownIDs[k.ID] = true
		}
	}
	cfg := gosym.RunConfig{Workers: *workers, SolverKind: *solver, TimeoutMs: tmo, MaxPathsPerHarness: meta.MaxPaths,
		Tier: *tier, InitPkgs: hp, KnownIDs: knownIDs, SolverArgs: meta.SolverArgs, MaxDecisions: meta.MaxDecisions, MaxSteps: meta.MaxSteps, Verbose: *verbose,
		Configure: func(in *gosym.Interp) {
			in.AllocBound = meta.AllocBound
			in.WorkBound = meta.WorkBound
			in.AllocEventIsPanic = meta.AllocEventIsPanic
		}}
	if cfg.MaxPathsPerHarness == 0 {
		cfg.MaxPathsPerHarness = 50000
	}
	t1 := time.Now()
	runs, stats, err := gosym.RunHarnesses(l, fns, cfg)
	if err != nil {
		fatal(2, "engine: %v", err)
	}
	exploreT := time.Since(t1)

	// native builds (replay + translator validation)
	natives := map[string]*gosym.NativeBuild{}
	pkgOf := map[string]string{}
	for i, p := range hp {
		for _, f := range gosym.FindHarnesses([]*ssa.Package{p}, "VerifH_", "VerifT_") {
			pkgOf[f.Name()] = meta.Pkgs[i]
		}
	}
	getNative := func(reldir string) (*gosym.NativeBuild, error) {
		if nb, ok := natives[reldir]; ok {
			return nb, nil
		}
		var pk *ssa.Package
		for i, rd := range meta.Pkgs {
			if rd == reldir {
				pk = hp[i]
			}
		}
		nb, err := gosym.BuildNative(l, *repo, reldir, genDir, meta.Tags, pk, meta.NativeRace)
		if err != nil {
			return nil, err
		}
		natives[reldir] = nb
		return nb, nil
	}

	exit := 0
	machineryFail := []string{}
	violations := 0
	var outLines []string
	replays := 0
	unconfirmed := 0
	knownHit := []string{}
	vacuity := map[string]interface{}{}
	totalPaths, totalDecisions, totalChecked, totalTrivial := 0, 0, 0, 0
	funcs := map[string]bool{}
	var samples []interface{}
	inconclusive := []string{}
	unsupported := []string{}
	replayDir := filepath.Join(*vdir, "replays", evName)
	for _, f := range fns {
		h := runs[f.Name()]
		if *verbose || *prop == "" {
			fmt.Println(h.Summary())
		}
		totalPaths += h.Paths
		totalDecisions += h.Decisions
		for k := range h.Funcs {
			funcs[k] = true
		}
		nChecked := 0
		for lbl, a := range h.Asserts {
			totalChecked += a.Checked
			totalTrivial += a.Trivial
			nChecked += a.Checked + a.Trivial + a.Failed
			_ = lbl
		}
		for _, s := range h.Samples {
			if len(samples) < 12 {
				samples = append(samples, map[string]string{"harness": h.Name, "path": s})
			}
		}
		for _, s := range h.Inconclusive {
			inconclusive = append(inconclusive, h.Name+": "+s)
		}
		for k, n := range h.Unsupported {
			unsupported = append(unsupported, fmt.Sprintf("%s: %s ×%d", h.Name, k, n))
		}
		// vacuity: every harness must complete at least one path and evaluate at least one assertion
		req := requiredReach(f)
		missing := []string{}
		for _, r := range req {
			if !h.Reached[r] {
				missing = append(missing, r)
			}
		}
		vacuity[h.Name] = map[string]interface{}{"paths_completed": h.Completed, "asserts_evaluated": nChecked,
			"reach_required": len(req), "reach_missing": missing}
		if h.Completed == 0 && len(h.Violations) == 0 && len(h.Known) == 0 {
			machineryFail = append(machineryFail, h.Name+": no path completed ("+h.Summary()+")")
		}
		if len(missing) > 0 {
			machineryFail = append(machineryFail, fmt.Sprintf("%s: reach labels not witnessed: %v", h.Name, missing))
		}
		// violations: replay natively before reporting
		all := append(append([]*gosym.Violation{}, h.Violations...), h.Known...)
		for i, v := range all {
			os.MkdirAll(replayDir, 0o755)
			rp := filepath.Join(replayDir, fmt.Sprintf("%s-%d.json", h.Name, i))
			rec := map[string]interface{}{"property": *prop, "harness": h.Name, "pkg": pkgOf[h.Name], "label": v.Label,
				"kind": v.Kind, "msg": v.Msg, "assign": gosym.ModelToAssign(v.Model), "tier": *tier, "tags": meta.Tags, "known_id": v.KnownID}
			confirmed := false
			var outcome string
			if !*noNative {
				nb, err := getNative(pkgOf[h.Name])
				if err != nil {
					machineryFail = append(machineryFail, err.Error())
				} else {
					replays++
					var raw string
					if v.Kind == "work" {
						nb.Deadline = 20 * time.Second
					}
					outcome, raw, _ = nb.RunSingle(h.Name, gosym.ModelToAssign(v.Model), *tier)
					nb.Deadline = 0
					confirmed = confirms(v, outcome)
					rec["native_outcome"] = outcome
					if !confirmed {
						rec["native_output"] = tail(raw, 4000)
					}
				}
			} else {
				confirmed = true
			}
			rec["confirmed"] = confirmed
			b, _ := json.MarshalIndent(rec, "", " ")
			os.WriteFile(rp, b, 0o644)
			switch {
			case !confirmed:
				unconfirmed++
				inconclusive = append(inconclusive, fmt.Sprintf("%s: unconfirmed counterexample for %s (native outcome %q), replay=%s", h.Name, v.Label, outcome, rp))
			case v.KnownID != "":
				k := kfByID[v.KnownID]
				outLines = append(outLines, fmt.Sprintf("KNOWN-FINDING: property=%s %s: %s", *prop, k.ID, k.Text))
				knownHit = append(knownHit, k.ID)
			default:
				violations++
				outLines = append(outLines, fmt.Sprintf("VIOLATION property=%s replay=%s", *prop, rp))
				outLines = append(outLines, fmt.Sprintf("  harness=%s kind=%s label=%s msg=%s assign=%v", h.Name, v.Kind, v.Label, trunc(v.Msg, 300), gosym.ModelToAssign(v.Model)))
				exit = 1
			}
		}
	}

	// translator validation: concrete engine runs vs native runs
	validated, valMismatch, valSkipped := 0, 0, 0
	var valNotes []string
	if !*noNative {
		n := meta.ValidateN
		if n == 0 {
			n = 24
		}
		if *tier == "thorough" {
			n *= 4
		}
		skipH := map[string]bool{}
		for _, s := range meta.NoValidate {
			skipH[s] = true
		}
		v, mm, sk, notes, err := validate(l, fns, hp, cfg, n, seed, pkgOf, getNative, *tier, skipH)
		if err != nil {
			machineryFail = append(machineryFail, "translator validation: "+err.Error())
		}
		validated, valMismatch, valSkipped, valNotes = v, mm, sk, notes
		if mm > 0 {
			machineryFail = append(machineryFail, fmt.Sprintf("translator validation: %d mismatches: %v", mm, notes))
		}
	}

	sort.Strings(inconclusive)
	sort.Strings(unsupported)
	wall := time.Since(t0)
	var fl []string
	for k := range funcs {
		if strings.Contains(k, "arnodel/golua") && !strings.Contains(k, ".Verif") && !strings.Contains(k, ".verif") && !strings.Contains(k, ".nondet") {
			fl = append(fl, strings.ReplaceAll(k, "github.com/arnodel/golua/", ""))
		}
	}
	sort.Strings(fl)
	if len(samples) == 0 {
		samples = append(samples, "no completed path")
	}
	ev := map[string]interface{}{
		"property_id": *prop, "tier": *tier, "build_tags": meta.Tags, "seed": seed, "level": "model_checking",
		"coverage": map[string]interface{}{
			"states": max1(totalPaths), "transitions": max1(totalDecisions),
			"traces_validated_against_impl": validated + replays,
			"samples":    samples,
			"exhaustive": false,
			"harnesses":  len(fns),
			"functions_encoded": fl,
			"bounds":     meta.Bounds,
			"outside_claim": meta.Outside,
			"queries": map[string]interface{}{"total": stats.Queries, "sat": stats.Sat, "unsat": stats.Unsat,
				"unknown": stats.Unknown, "errors": stats.Errors, "solver_restarts": stats.Restarts},
			"assertions": map[string]int{"discharged_unsat": totalChecked, "folded_true_concretely": totalTrivial},
			"solver":        *solver,
			"solver_wall_s": stats.Wall.Seconds(),
			"load_s":        loadT.Seconds(), "explore_s": exploreT.Seconds(),
			"vacuity":       vacuity,
			"inconclusive":  inconclusive,
			"unsupported_paths": unsupported,
			"known_findings_hit": knownHit,
			"unconfirmed_counterexamples": unconfirmed,
			"translator_validation": map[string]interface{}{"agreeing_runs": validated, "mismatches": valMismatch, "skipped": valSkipped, "notes": valNotes},
			"explanation": "paths = feasible execution paths of the harness through the real SSA; transitions = solver-decided branch decisions; every assertion on every path is discharged by an SMT query (unsat) or folded concretely",
		},
		"assumptions": meta.Assumptions,
		"wall_s":      wall.Seconds(),
		"violations":  violations,
	}
	os.MkdirAll(filepath.Join(*vdir, "evidence"), 0o755)
	if *prop != "" {
		b, _ := json.MarshalIndent(ev, "", " ")
		os.WriteFile(filepath.Join(*vdir, "evidence", evName+".json"), b, 0o644)
	}
	for _, l := range outLines {
		fmt.Println(l)
	}
	if len(inconclusive) > 0 || len(unsupported) > 0 {
		fmt.Fprintf(os.Stderr, "note: %d inconclusive items, %d unsupported path classes (see evidence)\n", len(inconclusive), len(unsupported))
		if *verbose {
			for _, s := range inconclusive {
				fmt.Fprintln(os.Stderr, "  inconclusive:", s)
			}
			for _, s := range unsupported {
				fmt.Fprintln(os.Stderr, "  unsupported:", s)
			}
		}
	}
	fmt.Printf("property=%s tier=%s harnesses=%d paths=%d decisions=%d queries=%d (unsat %d, sat %d, unknown %d) asserts_discharged=%d validated=%d violations=%d known=%d wall=%.1fs\n",
		*prop, *tier, len(fns), totalPaths, totalDecisions, stats.Queries, stats.Unsat, stats.Sat, stats.Unknown, totalChecked, validated, violations, len(knownHit), wall.Seconds())
	if exit == 0 && len(machineryFail) > 0 {
		for _, m := range machineryFail {
			fmt.Fprintln(os.Stderr, "MACHINERY:", m)
		}
		os.Exit(2)
	}
	os.Exit(exit)
}

func max1(n int) int {
	if n < 1 {
		return 1
	}
	return n
}

func trunc(s string, n int) string {
	if len(s) > n {
		return s[:n] + "…"
	}
	return s
}

func tail(s string, n int) string {
	if len(s) > n {
		return "…" + s[len(s)-n:]
	}
	return s
}

// confirms decides whether the native outcome reproduces the violation.
func confirms(v *gosym.Violation, outcome string) bool {
	parts := strings.SplitN(outcome, "|", 3)
	if len(parts) < 2 {
		return false
	}
	status, fails := parts[0], strings.Split(parts[1], ",")
	if status == "race" {
		return true // the race detector reported unsynchronised conflicting accesses
	}
	switch v.Kind {
	case "panic":
		return status == "panic" || status == "crash" || status == "timeout"
	case "unwind":
		return status == "timeout" || status == "crash"
	case "work":
		// unmetered work: the real build does not finish the operation within
		// the replay deadline although the context is CPU-limited
		return status == "timeout"
	default:
		label := v.Label
		if i := strings.Index(label, "@"); i >= 0 {
			label = label[:i]
		}
		for _, f := range fails {
			if f == label {
				return true
			}
		}
		// an assertion placed after a crash point
		return false
	}
}

// requiredReach scans the harness (and same-package callees, one level) for
// verifReach("label") calls with constant labels.
func requiredReach(f *ssa.Function) []string {
	seen := map[string]bool{}
	visited := map[*ssa.Function]bool{}
	var visit func(fn *ssa.Function, depth int)
	visit = func(fn *ssa.Function, depth int) {
		if visited[fn] || depth > 3 {
			return
		}
		visited[fn] = true
		for _, b := range fn.Blocks {
			for _, ins := range b.Instrs {
				c, ok := ins.(ssa.CallInstruction)
				if !ok {
					continue
				}
				callee := c.Common().StaticCallee()
				if callee == nil {
					continue
				}
				if callee.Name() == "verifReach" {
					if k, ok := c.Common().Args[0].(*ssa.Const); ok {
						seen[strings.Trim(k.Value.ExactString(), `"`)] = true
					}
				} else if callee.Pkg == f.Pkg && (strings.HasPrefix(callee.Name(), "verif") || strings.HasPrefix(callee.Name(), "vh")) {
					visit(callee, depth+1)
				}
			}
		}
		for _, an := range fn.AnonFuncs {
			visit(an, depth+1)
		}
	}
	visit(f, 0)
	var r []string
	for k := range seen {
		r = append(r, k)
	}
	sort.Strings(r)
	return r
}

// validate runs each harness concretely in the engine on pseudo-random and
// boundary assignments and compares the outcome with the native build.
func validate(l *gosym.Loaded, fns []*ssa.Function, hp []*ssa.Package, cfg gosym.RunConfig, n, seed int,
	pkgOf map[string]string, getNative func(string) (*gosym.NativeBuild, error), tier string, skipH map[string]bool) (ok, mismatch, skipped int, notes []string, err error) {
	in, cleanup, err := gosym.NewConcreteInterp(l, cfg)
	if err != nil {
		return 0, 0, 0, nil, err
	}
	defer cleanup()
	type pending struct {
		h       string
		outcome string
	}
	byPkg := map[string][]gosym.BatchCase{}
	pend := map[string][]pending{}
	boundary := []uint64{0, 1, 2, 0xffffffffffffffff, 0x7fffffffffffffff, 0x8000000000000000, 0x43e0000000000000,
		0xc3e0000000000000, 0x7ff0000000000000, 0xfff0000000000000, 0x7ff8000000000001, 0x8000000000000000, 0x4340000000000000,
		0x3ff0000000000000, 0xbff0000000000000, 0x4000000000000000, 3, 7, 8, 16, 63, 64, 65, 255, 256, 0x3fe0000000000000}
	for _, f := range fns {
		if skipH[f.Name()] {
			skipped += n
			continue
		}
		for i := 0; i < n; i++ {
			i := i
			gen := func(name string, w int) uint64 {
				hsh := fnv.New64a()
				fmt.Fprintf(hsh, "%d|%d|%s|%s", seed, i, f.Name(), name)
				x := hsh.Sum64()
				switch {
				case i%3 == 0:
					return boundary[x%uint64(len(boundary))]
				case i%3 == 1 && w >= 16:
					return x % 300
				}
				return x
			}
			outcome, assign, skip := in.ConcreteOutcome(f, gen)
			if skip != "" {
				skipped++
				if len(notes) < 10 {
					notes = append(notes, f.Name()+": skipped: "+skip)
				}
				continue
			}
			pk := pkgOf[f.Name()]
			byPkg[pk] = append(byPkg[pk], gosym.BatchCase{H: f.Name(), A: assign})
			pend[pk] = append(pend[pk], pending{f.Name(), outcome})
		}
	}
	for pk, cases := range byPkg {
		nb, e := getNative(pk)
		if e != nil {
			return ok, mismatch, skipped, notes, e
		}
		// a native crash kills the batch: run in chunks, and fall back to single runs for the remainder
		res, raw, _ := nb.RunBatch(cases, tier)
		for i, r := range res {
			want := pend[pk][i].outcome
			if r == "" {
				// process died at or before this case: run singly
				o, _, _ := nb.RunSingle(cases[i].H, cases[i].A, tier)
				r = o
				if strings.HasPrefix(r, "crash") && strings.HasPrefix(want, "panic") {
					r = want
				}
			}
			if r == want {
				ok++
			} else {
				mismatch++
				if len(notes) < 10 {
					notes = append(notes, fmt.Sprintf("%s: engine %q native %q assign %v", cases[i].H, want, r, cases[i].A))
				}
				_ = raw
			}
		}
	}
	return
}
