package main

import (
	"encoding/json"
	"fmt"
	"os"
	"os/exec"
	"path/filepath"
	"time"
)

// runTagSets runs the property once per build-tag set (each run loads the SSA
// built with those tags) and merges the evidence.
func runTagSets(prop, tier string, meta *PropMeta, vdir string, verbose bool) int {
	t0 := time.Now()
	exit := 0
	merged := map[string]interface{}{}
	var per []interface{}
	states, transitions, validated, violations := 0, 0, 0, 0
	var samples []interface{}
	self, _ := os.Executable()
	for i, tags := range meta.TagSets {
		args := []string{"-property", prop, "-tier", tier, "-tagset", fmt.Sprint(i)}
		if verbose {
			args = append(args, "-v")
		}
		cmd := exec.Command(self, args...)
		cmd.Stdout, cmd.Stderr = os.Stdout, os.Stderr
		err := cmd.Run()
		code := 0
		if err != nil {
			code = 2
			if ee, ok := err.(*exec.ExitError); ok {
				code = ee.ExitCode()
			}
		}
		if code > exit {
			exit = code
		}
		evp := filepath.Join(vdir, "evidence", fmt.Sprintf("%s.tagset%d.json", prop, i))
		b, rerr := os.ReadFile(evp)
		os.Remove(evp)
		if rerr != nil {
			if exit == 0 {
				exit = 2
			}
			continue
		}
		var ev map[string]interface{}
		json.Unmarshal(b, &ev)
		cov, _ := ev["coverage"].(map[string]interface{})
		geti := func(k string) int {
			f, _ := cov[k].(float64)
			return int(f)
		}
		states += geti("states")
		transitions += geti("transitions")
		validated += geti("traces_validated_against_impl")
		if v, ok := ev["violations"].(float64); ok {
			violations += int(v)
		}
		if ss, ok := cov["samples"].([]interface{}); ok && len(samples) < 12 {
			for _, s := range ss {
				if len(samples) < 12 {
					samples = append(samples, map[string]interface{}{"build_tags": tags, "sample": s})
				}
			}
		}
		per = append(per, map[string]interface{}{"build_tags": tags, "exit": code, "states": geti("states"), "transitions": geti("transitions"),
			"queries": cov["queries"], "inconclusive": cov["inconclusive"], "unsupported_paths": cov["unsupported_paths"], "vacuity": cov["vacuity"]})
		if merged["assumptions"] == nil {
			merged["assumptions"] = ev["assumptions"]
		}
	}
	if len(samples) == 0 {
		samples = append(samples, "no completed path")
	}
	out := map[string]interface{}{
		"property_id": prop, "tier": tier, "seed": 0, "level": "model_checking",
		"coverage": map[string]interface{}{
			"states": max1(states), "transitions": max1(transitions), "traces_validated_against_impl": validated,
			"samples": samples, "exhaustive": false, "tag_sets": per, "bounds": meta.Bounds, "outside_claim": meta.Outside,
			"explanation": "the same harnesses (assertions against the manual's traces) are run once per build-tag set; every tag set must satisfy them, hence all agree",
		},
		"assumptions": merged["assumptions"],
		"wall_s":      time.Since(t0).Seconds(),
		"violations":  violations,
	}
	b, _ := json.MarshalIndent(out, "", " ")
	os.WriteFile(filepath.Join(vdir, "evidence", prop+".json"), b, 0o644)
	fmt.Printf("property=%s tier=%s tag_sets=%d paths=%d violations=%d wall=%.1fs\n", prop, tier, len(meta.TagSets), states, violations, time.Since(t0).Seconds())
	return exit
}
