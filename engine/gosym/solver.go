package gosym

import (
	"os"
	"bufio"
	"fmt"
	"io"
	"os/exec"
	"strconv"
	"strings"
	"time"
)

// Solver wraps one long-lived SMT solver process (cvc5 or z3) spoken to in
// SMT-LIB2 over pipes, with push/pop scopes.  Every command sent is recorded
// per scope so that the process can be restarted after a hang.
type Solver struct {
	queriesAtStart int
	Recycles int
	MaxInts bool // harness profile: counterexample models prefer large 64-bit inputs
	Kind      string // "cvc5", "z3-new", "z3"
	TimeoutMs int
	ExtraArgs []string
	OneShot   bool // run a fresh solver process per query (no incremental state)
	AbsDiv    bool // render symbolic/symbolic division as uninterpreted functions (sound for unsat)

	cmd   *exec.Cmd
	in    io.WriteCloser
	out   *bufio.Reader
	lines chan string

	levels  [][]string        // commands per scope level
	defs    []map[*Term]string // names of defined terms per scope level
	decl    []map[string]bool
	nextID  int
	Stats   SolverStats
	LastErr string
	Log     io.Writer
}

func slowDump() time.Duration {
	if os.Getenv("GOSYM_DUMPSLOW_MS") != "" {
		n, _ := strconv.Atoi(os.Getenv("GOSYM_DUMPSLOW_MS"))
		return time.Duration(n) * time.Millisecond
	}
	return 3 * time.Second
}

type SolverStats struct {
	Queries  int
	Sat      int
	Unsat    int
	Unknown  int
	Errors   int
	Restarts int
	Wall     time.Duration
}

func NewSolver(kind string, timeoutMs int, extra ...string) (*Solver, error) {
	s := &Solver{Kind: kind, TimeoutMs: timeoutMs}
	for _, e := range extra {
		if e == "oneshot" {
			s.OneShot = true
		} else if e == "absdiv" {
			s.AbsDiv = true
		} else if e == "maxints" {
			s.MaxInts = true
		} else {
			s.ExtraArgs = append(s.ExtraArgs, e)
		}
	}
	s.levels = [][]string{nil}
	s.defs = []map[*Term]string{{}}
	s.decl = []map[string]bool{{}}
	if err := s.start(); err != nil {
		return nil, err
	}
	return s, nil
}

func (s *Solver) start() error {
	if s.OneShot {
		return nil
	}
	var cmd *exec.Cmd
	switch s.Kind {
	case "cvc5":
		args := append([]string{"--incremental", "--lang", "smt2", "--produce-models",
			fmt.Sprintf("--tlimit-per=%d", s.TimeoutMs)}, s.ExtraArgs...)
		cmd = exec.Command("cvc5", args...)
	case "z3-new":
		cmd = exec.Command("z3-new", "-in")
	case "z3":
		cmd = exec.Command("z3", "-in")
	default:
		return fmt.Errorf("unknown solver %q", s.Kind)
	}
	in, err := cmd.StdinPipe()
	if err != nil {
		return err
	}
	out, err := cmd.StdoutPipe()
	if err != nil {
		return err
	}
	cmd.Stderr = cmd.Stdout
	if err := cmd.Start(); err != nil {
		return err
	}
	s.cmd, s.in = cmd, in
	s.out = bufio.NewReaderSize(out, 1<<16)
	s.lines = make(chan string, 1024)
	go func(r *bufio.Reader, ch chan string) {
		for {
			l, err := r.ReadString('\n')
			if l != "" {
				ch <- strings.TrimRight(l, "\r\n")
			}
			if err != nil {
				close(ch)
				return
			}
		}
	}(s.out, s.lines)
	s.raw("(set-logic ALL)")
	if s.Kind != "cvc5" {
		s.raw(fmt.Sprintf("(set-option :timeout %d)", s.TimeoutMs))
		s.raw("(set-option :produce-models true)")
	}
	return nil
}

func (s *Solver) Close() {
	if s.OneShot {
		return
	}
	if s.cmd != nil {
		s.in.Close()
		s.cmd.Process.Kill()
		s.cmd.Wait()
		s.cmd = nil
	}
}

func (s *Solver) raw(c string) {
	if s.Log != nil {
		fmt.Fprintln(s.Log, c)
	}
	if s.OneShot {
		return
	}
	io.WriteString(s.in, c)
	io.WriteString(s.in, "\n")
}

func (s *Solver) send(c string) {
	top := len(s.levels) - 1
	s.levels[top] = append(s.levels[top], c)
	s.raw(c)
}

func (s *Solver) restart() {
	s.Stats.Restarts++
	s.Close()
	if err := s.start(); err != nil {
		panic(err)
	}
	for i, lv := range s.levels {
		if i > 0 {
			s.raw("(push 1)")
		}
		for _, c := range lv {
			s.raw(c)
		}
	}
}

func (s *Solver) Push() {
	s.raw("(push 1)")
	s.levels = append(s.levels, nil)
	s.defs = append(s.defs, map[*Term]string{})
	s.decl = append(s.decl, map[string]bool{})
}

func (s *Solver) Pop() {
	if len(s.levels) <= 1 {
		panic("solver pop at level 0")
	}
	s.raw("(pop 1)")
	s.levels = s.levels[:len(s.levels)-1]
	s.defs = s.defs[:len(s.defs)-1]
	s.decl = s.decl[:len(s.decl)-1]
}

func (s *Solver) Level() int { return len(s.levels) - 1 }

func (s *Solver) PopTo(level int) {
	for s.Level() > level {
		s.Pop()
	}
	// a long-lived incremental cvc5 slows down linearly with the number of
	// queries it has answered (13 ms -> 90 ms over 2000 queries): start a fresh
	// process at a path boundary every few hundred queries
	if level == 0 && !s.OneShot && s.Stats.Queries-s.queriesAtStart > 400 {
		s.queriesAtStart = s.Stats.Queries
		s.restart()
		s.Stats.Restarts-- // housekeeping, not a failure
		s.Recycles++
	}
}

func (s *Solver) lookupDef(t *Term) (string, bool) {
	for i := len(s.defs) - 1; i >= 0; i-- {
		if n, ok := s.defs[i][t]; ok {
			return n, true
		}
	}
	return "", false
}

func (s *Solver) isDeclared(n string) bool {
	for i := len(s.decl) - 1; i >= 0; i-- {
		if s.decl[i][n] {
			return true
		}
	}
	return false
}

// name returns an SMT expression (a name or literal) denoting t, emitting
// declarations/definitions as needed in the current scope.
func (s *Solver) name(t *Term) string {
	switch t.Op {
	case OpConst:
		return t.render(nil)
	case OpVar:
		if !s.isDeclared(t.Name) {
			s.decl[len(s.decl)-1][t.Name] = true
			s.send(fmt.Sprintf("(declare-const %s %s)", t.Name, t.S))
		}
		return t.Name
	}
	if n, ok := s.lookupDef(t); ok {
		return n
	}
	args := make([]string, len(t.Args))
	for i, a := range t.Args {
		args[i] = s.name(a)
	}
	if t.Op == OpUF && !s.isDeclared(t.Name) {
		s.decl[len(s.decl)-1][t.Name] = true
		var as []string
		for _, a := range t.Args {
			as = append(as, a.S.String())
		}
		s.send(fmt.Sprintf("(declare-fun %s (%s) %s)", t.Name, strings.Join(as, " "), t.S))
	}
	body := t.render(args)
	if s.AbsDiv && (t.Op == OpBVSDiv || t.Op == OpBVSRem || t.Op == OpBVUDiv || t.Op == OpBVURem) && !t.Args[0].IsConst() && !t.Args[1].IsConst() {
		fn := fmt.Sprintf("absdiv_%d_%d", t.Op, t.S.W)
		if !s.isDeclared(fn) {
			s.decl[len(s.decl)-1][fn] = true
			s.send(fmt.Sprintf("(declare-fun %s (%s %s) %s)", fn, t.S, t.S, t.S))
		}
		body = "(" + fn + " " + args[0] + " " + args[1] + ")"
	}
	s.nextID++
	n := "t!" + strconv.Itoa(s.nextID)
	s.send(fmt.Sprintf("(define-fun %s () %s %s)", n, t.S, body))
	s.defs[len(s.defs)-1][t] = n
	return n
}

func (s *Solver) Assert(t *Term) {
	if t.IsTrue() {
		return
	}
	n := s.name(t)
	s.send("(assert " + n + ")")
}

type Result int

const (
	Sat Result = iota
	Unsat
	Unknown
)

func (r Result) String() string { return [...]string{"sat", "unsat", "unknown"}[r] }

// readUntilMark reads lines up to the echo mark; returns collected lines.
func (s *Solver) readUntilMark(deadline time.Duration) ([]string, bool) {
	var res []string
	timer := time.NewTimer(deadline)
	defer timer.Stop()
	for {
		select {
		case l, ok := <-s.lines:
			if !ok {
				return res, false
			}
			if strings.Contains(l, "@@MARK@@") {
				return res, true
			}
			res = append(res, l)
		case <-timer.C:
			return res, false
		}
	}
}

// oneShot runs the whole assertion stack plus tail commands in a fresh process.
func (s *Solver) oneShot(tail string) ([]string, bool) {
	var sb strings.Builder
	sb.WriteString("(set-logic ALL)\n")
	for _, lv := range s.levels {
		for _, c := range lv {
			sb.WriteString(c)
			sb.WriteString("\n")
		}
	}
	sb.WriteString(tail)
	var cmd *exec.Cmd
	switch s.Kind {
	case "cvc5":
		args := append([]string{"--lang", "smt2", "--produce-models", fmt.Sprintf("--tlimit=%d", s.TimeoutMs)}, s.ExtraArgs...)
		cmd = exec.Command("cvc5", args...)
	default:
		cmd = exec.Command(s.Kind, "-in", fmt.Sprintf("-t:%d", s.TimeoutMs))
	}
	cmd.Stdin = strings.NewReader(sb.String())
	done := make(chan []byte, 1)
	go func() {
		out, _ := cmd.CombinedOutput()
		done <- out
	}()
	select {
	case out := <-done:
		var ls []string
		for _, l := range strings.Split(string(out), "\n") {
			l = strings.TrimSpace(l)
			if l != "" {
				ls = append(ls, l)
			}
		}
		if len(ls) == 0 {
			ls = []string{"unknown"}
		}
		return ls, true
	case <-time.After(time.Duration(s.TimeoutMs)*time.Millisecond*2 + 5*time.Second):
		if cmd.Process != nil {
			cmd.Process.Kill()
		}
		return []string{"timeout"}, true
	}
}

// Check runs (check-sat) in the current context.
func (s *Solver) Check() Result {
	t0 := time.Now()
	s.Stats.Queries++
	var lines []string
	var ok bool
	if s.OneShot {
		lines, ok = s.oneShot("(check-sat)\n")
		for i, l := range lines {
			if strings.Contains(l, "interrupted by timeout") || strings.Contains(l, "timeout") {
				lines[i] = "unknown"
			}
		}
	} else {
		s.raw("(check-sat)")
		s.raw(`(echo "@@MARK@@")`)
		lines, ok = s.readUntilMark(time.Duration(s.TimeoutMs)*time.Millisecond*2 + 5*time.Second)
	}
	s.Stats.Wall += time.Since(t0)
	if d := os.Getenv("GOSYM_DUMPSLOW"); d != "" && time.Since(t0) > slowDump() {
		var sb strings.Builder
		sb.WriteString("; " + s.Kind + " " + strings.Join(s.ExtraArgs, " ") + " " + strings.Join(lines, ",") + "\n(set-logic ALL)\n")
		for _, lv := range s.levels {
			for _, c := range lv {
				sb.WriteString(c + "\n")
			}
		}
		sb.WriteString("(check-sat)\n")
		os.WriteFile(fmt.Sprintf("%s/slow-%d-%d.smt2", d, os.Getpid(), time.Now().UnixNano()), []byte(sb.String()), 0o644)
	}
	if os.Getenv("GOSYM_QLOG") != "" {
		fmt.Fprintf(os.Stderr, "query %d: %v %v\n", s.Stats.Queries, time.Since(t0), lines)
	}
	if !ok {
		s.LastErr = "solver hang/died: " + strings.Join(lines, " | ")
		s.Stats.Unknown++
		s.restart()
		return Unknown
	}
	res := Unknown
	seen := false
	for _, l := range lines {
		switch {
		case strings.Contains(l, "(error"):
			s.Stats.Errors++
			s.LastErr = l
			s.Stats.Unknown++
			return Unknown
		case l == "sat":
			res, seen = Sat, true
		case l == "unsat":
			res, seen = Unsat, true
		case l == "unknown" || l == "timeout":
			res, seen = Unknown, true
		}
	}
	if !seen {
		s.LastErr = "no verdict: " + strings.Join(lines, " | ")
	}
	switch res {
	case Sat:
		s.Stats.Sat++
	case Unsat:
		s.Stats.Unsat++
	default:
		s.Stats.Unknown++
	}
	return res
}

// CheckWith checks satisfiability of the current context plus extra.
func (s *Solver) CheckWith(extra *Term) Result {
	if extra.IsFalse() {
		return Unsat
	}
	s.Push()
	s.Assert(extra)
	r := s.Check()
	s.Pop()
	return r
}

// ModelValue is a concrete value from a model.
type ModelValue struct {
	Sort Sort
	Lo   uint64
	Hi   uint64
}

// GetValues must be called right after a Sat Check (in the same scope).
func (s *Solver) GetValues(vars []*Term) (map[string]ModelValue, error) {
	res := map[string]ModelValue{}
	if len(vars) == 0 {
		return res, nil
	}
	var names []string
	for _, v := range vars {
		names = append(names, s.name(v))
	}
	var lines []string
	var ok bool
	if s.OneShot {
		lines, ok = s.oneShot("(check-sat)\n(get-value (" + strings.Join(names, " ") + "))\n")
		if len(lines) > 0 && (lines[0] == "sat" || lines[0] == "unsat" || lines[0] == "unknown") {
			lines = lines[1:]
		}
	} else {
		s.raw("(get-value (" + strings.Join(names, " ") + "))")
		s.raw(`(echo "@@MARK@@")`)
		lines, ok = s.readUntilMark(30 * time.Second)
	}
	if !ok {
		s.restart()
		return nil, fmt.Errorf("get-value: solver hang")
	}
	txt := strings.Join(lines, " ")
	if strings.Contains(txt, "(error") {
		return nil, fmt.Errorf("get-value: %s", txt)
	}
	sx, _, err := parseSexp(txt, 0)
	if err != nil {
		return nil, err
	}
	for i, pair := range sx.kids {
		if len(pair.kids) != 2 || i >= len(vars) {
			continue
		}
		mv, err := sexpToValue(pair.kids[1], vars[i].S)
		if err != nil {
			return nil, fmt.Errorf("get-value %s: %v (%s)", vars[i].Name, err, txt)
		}
		res[vars[i].Name] = mv
	}
	return res, nil
}

type sexp struct {
	atom string
	kids []*sexp
	list bool
}

func parseSexp(s string, i int) (*sexp, int, error) {
	for i < len(s) && (s[i] == ' ' || s[i] == '\n' || s[i] == '\t') {
		i++
	}
	if i >= len(s) {
		return nil, i, fmt.Errorf("unexpected end of s-expression")
	}
	if s[i] == '(' {
		i++
		n := &sexp{list: true}
		for {
			for i < len(s) && (s[i] == ' ' || s[i] == '\n' || s[i] == '\t') {
				i++
			}
			if i >= len(s) {
				return nil, i, fmt.Errorf("unterminated list")
			}
			if s[i] == ')' {
				return n, i + 1, nil
			}
			k, j, err := parseSexp(s, i)
			if err != nil {
				return nil, j, err
			}
			n.kids = append(n.kids, k)
			i = j
		}
	}
	j := i
	if s[i] == '|' {
		j = i + 1
		for j < len(s) && s[j] != '|' {
			j++
		}
		j++
	} else {
		for j < len(s) && s[j] != ' ' && s[j] != ')' && s[j] != '(' && s[j] != '\n' {
			j++
		}
	}
	return &sexp{atom: s[i:j]}, j, nil
}

func parseBVAtom(a string) (hi, lo uint64, w int, err error) {
	if strings.HasPrefix(a, "#x") {
		h := a[2:]
		w = len(h) * 4
		if len(h) > 16 {
			hi, err = strconv.ParseUint(h[:len(h)-16], 16, 64)
			if err != nil {
				return
			}
			h = h[len(h)-16:]
		}
		lo, err = strconv.ParseUint(h, 16, 64)
		return
	}
	if strings.HasPrefix(a, "#b") {
		b := a[2:]
		w = len(b)
		if len(b) > 64 {
			hi, err = strconv.ParseUint(b[:len(b)-64], 2, 64)
			if err != nil {
				return
			}
			b = b[len(b)-64:]
		}
		lo, err = strconv.ParseUint(b, 2, 64)
		return
	}
	err = fmt.Errorf("not a bv literal: %q", a)
	return
}

func sexpToValue(x *sexp, s Sort) (ModelValue, error) {
	mv := ModelValue{Sort: s}
	switch s.K {
	case SBool:
		mv.Lo = 0
		if x.atom == "true" {
			mv.Lo = 1
		}
		return mv, nil
	case SBV:
		if !x.list {
			hi, lo, _, err := parseBVAtom(x.atom)
			mv.Hi, mv.Lo = hi, lo
			return mv, err
		}
		// (_ bv123 64)
		if len(x.kids) == 3 && x.kids[0].atom == "_" && strings.HasPrefix(x.kids[1].atom, "bv") {
			v, err := strconv.ParseUint(x.kids[1].atom[2:], 10, 64)
			mv.Lo = v
			return mv, err
		}
		return mv, fmt.Errorf("unrecognised bv value")
	case SFP64, SFP32:
		eb, sb := 11, 52
		if s.K == SFP32 {
			eb, sb = 8, 23
		}
		if x.list && len(x.kids) == 4 && x.kids[0].atom == "fp" {
			_, sg, _, e1 := parseBVAtom(x.kids[1].atom)
			_, ex, _, e2 := parseBVAtom(x.kids[2].atom)
			_, mn, _, e3 := parseBVAtom(x.kids[3].atom)
			if e1 != nil || e2 != nil || e3 != nil {
				return mv, fmt.Errorf("bad fp literal")
			}
			mv.Lo = sg<<uint(eb+sb) | ex<<uint(sb) | mn
			return mv, nil
		}
		if x.list && len(x.kids) == 4 && x.kids[0].atom == "_" {
			expAll := (uint64(1)<<uint(eb) - 1) << uint(sb)
			switch x.kids[1].atom {
			case "NaN":
				mv.Lo = expAll | 1<<uint(sb-1)
			case "+oo":
				mv.Lo = expAll
			case "-oo":
				mv.Lo = expAll | 1<<uint(eb+sb)
			case "+zero":
				mv.Lo = 0
			case "-zero":
				mv.Lo = 1 << uint(eb+sb)
			default:
				return mv, fmt.Errorf("unrecognised fp value %s", x.kids[1].atom)
			}
			return mv, nil
		}
		return mv, fmt.Errorf("unrecognised fp value")
	}
	return mv, fmt.Errorf("bad sort")
}
