package gosym

import (
	"fmt"
	"os"
	"path/filepath"
	"sort"
	"strings"

	"golang.org/x/tools/go/packages"
	"golang.org/x/tools/go/ssa"
	"golang.org/x/tools/go/ssa/ssautil"
)

type Loaded struct {
	Prog    *ssa.Program
	Pkgs    map[string]*ssa.Package // by import path
	Initial []*packages.Package
	Overlay map[string]string // virtual path -> real path (for native replay)
}

// Load type-checks and builds SSA for the given package patterns of the repo,
// with harness files injected through an overlay.
// harnessDir mirrors the repo layout: harnessDir/<reldir>/*.go is injected as
// repo/<reldir>/zz_verif_<file>.  supportTmpl (package name substituted) is
// added to every package that receives a harness file.
func Load(repo, harnessDir string, reldirs []string, tags string, genDir string) (*Loaded, error) {
	overlay := map[string][]byte{}
	ovReal := map[string]string{}
	support, err := os.ReadFile(filepath.Join(harnessDir, "support.go.tmpl"))
	if err != nil {
		return nil, err
	}
	var patterns []string
	for _, rd := range reldirs {
		patterns = append(patterns, "./"+rd)
		files, _ := filepath.Glob(filepath.Join(harnessDir, rd, "*.go"))
		sort.Strings(files)
		if len(files) == 0 {
			continue
		}
		pkgName := ""
		for _, f := range files {
			b, err := os.ReadFile(f)
			if err != nil {
				return nil, err
			}
			virt := filepath.Join(repo, rd, "zz_verif_"+filepath.Base(f))
			overlay[virt] = b
			ovReal[virt] = f
			if pkgName == "" {
				for _, line := range strings.Split(string(b), "\n") {
					if strings.HasPrefix(line, "package ") {
						pkgName = strings.TrimSpace(strings.TrimPrefix(line, "package "))
						break
					}
				}
			}
		}
		sup := strings.Replace(string(support), "package PKG", "package "+pkgName, 1)
		virt := filepath.Join(repo, rd, "zz_verif_support.go")
		overlay[virt] = []byte(sup)
		if genDir != "" {
			real := filepath.Join(genDir, strings.ReplaceAll(rd, "/", "_")+"_support.go")
			os.MkdirAll(genDir, 0o755)
			os.WriteFile(real, []byte(sup), 0o644)
			ovReal[virt] = real
		}
	}
	cfg := &packages.Config{
		Mode:       packages.LoadAllSyntax,
		Dir:        repo,
		Overlay:    overlay,
		BuildFlags: []string{"-tags=" + tags},
		Env:        append(os.Environ(), "GOFLAGS=-mod=mod", "GOPROXY=off", "GOSUMDB=off", "GOTOOLCHAIN=local"),
	}
	initial, err := packages.Load(cfg, patterns...)
	if err != nil {
		return nil, err
	}
	var errs []string
	packages.Visit(initial, nil, func(p *packages.Package) {
		for _, e := range p.Errors {
			errs = append(errs, e.Error())
		}
	})
	if len(errs) > 0 {
		if len(errs) > 20 {
			errs = errs[:20]
		}
		return nil, fmt.Errorf("load errors:\n%s", strings.Join(errs, "\n"))
	}
	prog, _ := ssautil.AllPackages(initial, ssa.InstantiateGenerics)
	prog.Build()
	l := &Loaded{Prog: prog, Pkgs: map[string]*ssa.Package{}, Initial: initial, Overlay: ovReal}
	for _, p := range prog.AllPackages() {
		l.Pkgs[p.Pkg.Path()] = p
	}
	return l, nil
}
