package gosym

import (
	"fmt"
	"os"
	"sort"
	"strings"
	"sync"
	"time"

	"golang.org/x/tools/go/ssa"
)

const RepoModule = "github.com/arnodel/golua"

// initAllow lists the non-golua packages whose initialisers are executed.
var initAllow = map[string]bool{
	"errors": false, "io": true, "strconv": true, "unicode": true, "unicode/utf8": true,
	"math": true, "math/bits": true, "encoding/binary": true, "bytes": true, "strings": true,
	"sort": true, "internal/bytealg": false, "unicode/utf16": true, "math/big": false,
	"io/fs": true, "internal/oserror": true, "syscall": false, "time": false, "os": false,
	"slices": true, "cmp": true, "iter": true, "internal/itoa": true, "internal/stringslite": true,
	"bufio": true, "text/scanner": false, "regexp": true, "regexp/syntax": true,
}

func allowInit(path string) bool {
	if strings.HasPrefix(path, RepoModule) {
		return true
	}
	return initAllow[path]
}

type Job struct {
	Fn     *ssa.Function
	Prefix []int
	Model  map[string]ModelValue
}

type RunConfig struct {
	Workers      int
	SolverKind   string
	TimeoutMs    int
	MaxPathsPerHarness int
	KnownIDs     map[string]bool
	Tier         string
	InitPkgs     []*ssa.Package
	MaxDecisions int
	MaxSteps     int64
	Configure    func(in *Interp)
	Verbose      bool
	// SolverArgs maps a harness-name prefix to extra solver arguments (a
	// separate solver process per distinct argument list and worker).
	SolverArgs map[string][]string
}

func (c *RunConfig) argsFor(name string) []string {
	best := ""
	for p := range c.SolverArgs {
		if strings.HasPrefix(name, p) && len(p) > len(best) {
			best = p
		}
	}
	if best == "" {
		return nil
	}
	return c.SolverArgs[best]
}

type pool struct {
	mu      sync.Mutex
	cond    *sync.Cond
	jobs    []Job
	active  int
	paths   map[*ssa.Function]int
	maxPaths int
	dropped map[*ssa.Function]int
	finished int
}

func (p *pool) get() (Job, bool) {
	p.mu.Lock()
	defer p.mu.Unlock()
	for {
		if len(p.jobs) > 0 {
			j := p.jobs[len(p.jobs)-1]
			p.jobs = p.jobs[:len(p.jobs)-1]
			if p.maxPaths > 0 && p.paths[j.Fn] >= p.maxPaths {
				p.dropped[j.Fn]++
				continue
			}
			p.paths[j.Fn]++
			p.active++
			return j, true
		}
		if p.active == 0 {
			p.cond.Broadcast()
			return Job{}, false
		}
		p.cond.Wait()
	}
}

func (p *pool) done(fn *ssa.Function, sibs []Sib) {
	p.mu.Lock()
	for _, s := range sibs {
		p.jobs = append(p.jobs, Job{Fn: fn, Prefix: s.Prefix, Model: s.Model})
	}
	p.active--
	p.mu.Unlock()
	p.cond.Broadcast()
}

// RunHarnesses explores all harness functions with a pool of workers, each
// owning an interpreter (heap) and a solver process.
func RunHarnesses(l *Loaded, fns []*ssa.Function, cfg RunConfig) (map[string]*HarnessRun, *SolverStats, error) {
	p := &pool{paths: map[*ssa.Function]int{}, dropped: map[*ssa.Function]int{}, maxPaths: cfg.MaxPathsPerHarness}
	p.cond = sync.NewCond(&p.mu)
	// larger harnesses first is unknown; keep given order (stack => reverse)
	for i := len(fns) - 1; i >= 0; i-- {
		p.jobs = append(p.jobs, Job{Fn: fns[i]})
	}
	nw := cfg.Workers
	if nw > len(fns)*16 {
		nw = len(fns) * 16
	}
	if nw < 1 {
		nw = 1
	}
	type wres struct {
		runs  map[*ssa.Function]*HarnessRun
		stats SolverStats
		err   error
	}
	results := make([]wres, nw)
	var wg sync.WaitGroup
	for w := 0; w < nw; w++ {
		wg.Add(1)
		go func(w int) {
			defer wg.Done()
			res := &results[w]
			res.runs = map[*ssa.Function]*HarnessRun{}
			solver, err := NewSolver(cfg.SolverKind, cfg.TimeoutMs)
			if err != nil {
				res.err = err
				return
			}
			defer solver.Close()
			if w == 0 && os.Getenv("GOSYM_SMTLOG") != "" {
				f, _ := os.Create(os.Getenv("GOSYM_SMTLOG"))
				solver.Log = f
				defer f.Close()
			}
			solvers := map[string]*Solver{"": solver}
			in := NewInterp(l.Prog, solver)
			in.AllowInit = allowInit
			in.KnownIDs = cfg.KnownIDs
			in.NoModelGuide = os.Getenv("GOSYM_NOMODEL") != ""
			in.NoDomains = os.Getenv("GOSYM_NODOM") != ""
			in.NoMerge = os.Getenv("GOSYM_NOMERGE") != ""
			if cfg.MaxDecisions > 0 {
				in.MaxDecisions = cfg.MaxDecisions
			}
			if cfg.MaxSteps > 0 {
				in.MaxSteps = cfg.MaxSteps
			}
			if cfg.Tier == "thorough" {
				in.TierN = 1
			}
			for _, pk := range cfg.InitPkgs {
				registerHarnessIntrinsics(in, pk.Pkg.Path())
			}
			if cfg.Configure != nil {
				cfg.Configure(in)
			}
			func() {
				defer func() {
					if r := recover(); r != nil {
						switch e := r.(type) {
						case *pathEnd:
							res.err = fmt.Errorf("init: %s: %s", e.Kind, e.Msg)
						case *goPanic:
							res.err = fmt.Errorf("init panic: %s @ %s", e.Msg, e.Stack)
						default:
							panic(r)
						}
					}
				}()
				in.H = newHarnessRun("init")
				in.fpBits = map[*Term]*Term{}
	in.fpBitsByKey = map[string]*Term{}
				in.nondetCount = map[string]int{}
				in.concNondets = map[string]uint64{}
		in.factMap = map[string]bool{}
				in.factMap = map[string]bool{}
				saved := in.MaxSteps
				in.MaxSteps = 2_000_000_000
				for _, pk := range cfg.InitPkgs {
					in.RunInit(pk)
				}
				in.InitOSFiles()
				in.MaxSteps = saved
			}()
			if res.err != nil {
				// drain: nothing can run
				for {
					j, ok := p.get()
					if !ok {
						return
					}
					p.done(j.Fn, nil)
				}
			}
			in.Snapshot()
			for {
				j, ok := p.get()
				if !ok {
					break
				}
				h := res.runs[j.Fn]
				if h == nil {
					h = newHarnessRun(j.Fn.Name())
					res.runs[j.Fn] = h
				}
				in.H = h
				key := strings.Join(cfg.argsFor(j.Fn.Name()), " ")
				sv := solvers[key]
				if sv == nil {
					var err error
					sv, err = NewSolver(cfg.SolverKind, cfg.TimeoutMs, cfg.argsFor(j.Fn.Name())...)
					if err != nil {
						res.err = err
						p.done(j.Fn, nil)
						continue
					}
					solvers[key] = sv
					if w == 0 && os.Getenv("GOSYM_SMTLOG") != "" {
						f, _ := os.Create(os.Getenv("GOSYM_SMTLOG") + ".profile")
						sv.Log = f
					}
				}
				in.Solver = sv
				in.runPath(j.Fn, j.Prefix, j.Model)
				if os.Getenv("GOSYM_PROGRESS") != "" {
					p.mu.Lock()
					p.finished++
					if p.finished%50 == 0 || os.Getenv("GOSYM_PROGRESS") == "2" {
						fmt.Fprintf(os.Stderr, "progress: %d paths done, %d pending, steps=%d decisions=%d queries=%d\n", p.finished, len(p.jobs), in.steps, len(in.decisions), sv.Stats.Queries)
					}
					p.mu.Unlock()
				}
				p.done(j.Fn, in.newSibs)
			}
			for k, sv := range solvers {
				res.stats.Queries += sv.Stats.Queries
				res.stats.Sat += sv.Stats.Sat
				res.stats.Unsat += sv.Stats.Unsat
				res.stats.Unknown += sv.Stats.Unknown
				res.stats.Errors += sv.Stats.Errors
				res.stats.Restarts += sv.Stats.Restarts
				res.stats.Wall += sv.Stats.Wall
				if k != "" {
					sv.Close()
				}
			}
		}(w)
	}
	wg.Wait()
	merged := map[string]*HarnessRun{}
	total := &SolverStats{}
	for _, r := range results {
		if r.err != nil {
			return nil, nil, r.err
		}
		for fn, h := range r.runs {
			m := merged[fn.Name()]
			if m == nil {
				m = newHarnessRun(fn.Name())
				merged[fn.Name()] = m
			}
			mergeRun(m, h)
		}
		total.Queries += r.stats.Queries
		total.Sat += r.stats.Sat
		total.Unsat += r.stats.Unsat
		total.Unknown += r.stats.Unknown
		total.Errors += r.stats.Errors
		total.Restarts += r.stats.Restarts
		total.Wall += r.stats.Wall
	}
	for fn, n := range p.dropped {
		m := merged[fn.Name()]
		if m != nil {
			m.noteInconclusive(fmt.Sprintf("path budget: %d pending prefixes dropped", n))
		}
	}
	for _, fn := range fns {
		if merged[fn.Name()] == nil {
			merged[fn.Name()] = newHarnessRun(fn.Name())
		}
	}
	return merged, total, nil
}

func mergeRun(m, h *HarnessRun) {
	m.Paths += h.Paths
	m.Decisions += h.Decisions
	m.Completed += h.Completed
	m.Infeasible += h.Infeasible
	m.Budget += h.Budget
	m.UnwindFail += h.UnwindFail
	m.Stops += h.Stops
	m.StopMsgs = append(m.StopMsgs, h.StopMsgs...)
	for k, v := range h.Unsupported {
		m.Unsupported[k] += v
	}
	for _, v := range h.Violations {
		dup := false
		for _, o := range m.Violations {
			if o.Label == v.Label && o.Kind == v.Kind && (v.Kind != "panic" || o.Msg == v.Msg) {
				dup = true
			}
		}
		if !dup {
			m.Violations = append(m.Violations, v)
		}
	}
	for _, v := range h.Known {
		dup := false
		for _, o := range m.Known {
			if o.KnownID == v.KnownID {
				dup = true
			}
		}
		if !dup {
			m.Known = append(m.Known, v)
		}
	}
	for k := range h.Reached {
		m.Reached[k] = true
	}
	for k, v := range h.Asserts {
		a := m.Asserts[k]
		if a == nil {
			a = &AssertStat{}
			m.Asserts[k] = a
		}
		a.Checked += v.Checked
		a.Trivial += v.Trivial
		a.Failed += v.Failed
	}
	for _, s := range h.Inconclusive {
		m.noteInconclusive(s)
	}
	for k := range h.Funcs {
		m.Funcs[k] = true
	}
	for _, s := range h.Samples {
		if len(m.Samples) < 6 {
			m.Samples = append(m.Samples, s)
		}
	}
	for k, v := range h.PanicsSeen {
		m.PanicsSeen[k] += v
	}
}

// FindHarnesses returns functions named prefix* in the given packages.
func FindHarnesses(pkgs []*ssa.Package, prefixes ...string) []*ssa.Function {
	var res []*ssa.Function
	for _, p := range pkgs {
		var names []string
		for n := range p.Members {
			names = append(names, n)
		}
		sort.Strings(names)
		for _, n := range names {
			f, ok := p.Members[n].(*ssa.Function)
			if !ok {
				continue
			}
			for _, pre := range prefixes {
				if strings.HasPrefix(n, pre) {
					res = append(res, f)
					break
				}
			}
		}
	}
	return res
}

var _ = time.Now

// NewConcreteInterp builds an initialised interpreter for concrete-mode runs.
func NewConcreteInterp(l *Loaded, cfg RunConfig) (*Interp, func(), error) {
	solver, err := NewSolver(cfg.SolverKind, cfg.TimeoutMs)
	if err != nil {
		return nil, nil, err
	}
	in := NewInterp(l.Prog, solver)
	in.AllowInit = allowInit
	in.KnownIDs = cfg.KnownIDs
	if cfg.Tier == "thorough" {
		in.TierN = 1
	}
	for _, pk := range cfg.InitPkgs {
		registerHarnessIntrinsics(in, pk.Pkg.Path())
	}
	if cfg.Configure != nil {
		cfg.Configure(in)
	}
	var ierr error
	func() {
		defer func() {
			if r := recover(); r != nil {
				ierr = fmt.Errorf("init failed: %v", r)
			}
		}()
		in.H = newHarnessRun("init")
		in.fpBits = map[*Term]*Term{}
	in.fpBitsByKey = map[string]*Term{}
		in.nondetCount = map[string]int{}
		in.concNondets = map[string]uint64{}
		in.factMap = map[string]bool{}
		saved := in.MaxSteps
		in.MaxSteps = 2_000_000_000
		for _, pk := range cfg.InitPkgs {
			in.RunInit(pk)
		}
		in.InitOSFiles()
		in.MaxSteps = saved
	}()
	if ierr != nil {
		solver.Close()
		return nil, nil, ierr
	}
	in.Snapshot()
	return in, func() { solver.Close() }, nil
}
