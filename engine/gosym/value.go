package gosym

import (
	"fmt"
	"go/types"
	"strings"

	"golang.org/x/tools/go/ssa"
)

// V is an interpreter value: *Term (scalar), Ptr, SliceV, StrV, IfaceV,
// StructV, ArrayV, FuncV, MapV, ChanV, TupleV, or *IterV.
type V interface{}

// Cell is a memory location. Composite types (struct, array) own child cells
// so that interior pointers are exact.
type Cell struct {
	ID     int
	T      types.Type
	V      V
	Kids   []*Cell
	Parent *Cell
	Idx    int
	Tag    string // allocation site (debug)
	Owner  int    // goroutine that allocated (race detection)
	race   *raceInfo
}

type Ptr struct {
	C   *Cell
	Re  types.Type // non-nil: pointer reinterpreted via unsafe as *Re
	Sub int        // element index inside a reinterpreted [N]uintptr view
	// SymIdx: pointer to Arr.Kids[SymIdx] with symbolic index (Arr = C)
	SymIdx *Term
	Off    int // base offset of the slice in C.Kids for SymIdx pointers
	N      int // number of addressable elements for SymIdx pointers
}

type SliceV struct {
	Arr *Cell // array cell; nil for nil slice
	Off int
	Len int
	Cap int
}

// StrV is an immutable byte string of concrete length.  Sym==nil means fully
// concrete (S); otherwise Sym holds one 8-bit term per byte.
type StrV struct {
	S   string
	Sym []*Term
}

type IfaceV struct {
	T types.Type // dynamic type; nil for nil interface
	V V
}

type StructV []V
type ArrayV []V
type TupleV []V

type FuncV struct {
	Fn      *ssa.Function
	Env     []V
	Builtin *ssa.Builtin
	ID      int // identity for closures (comparison with nil only in Go)
}

type MapObj struct {
	ID    int
	KT    types.Type
	VT    types.Type
	Keys  []V
	Vals  []V
	Index map[string]int // concrete key -> position
	Live  []bool
	N     int
}

type MapV struct{ M *MapObj }

type ChanObj struct {
	ID     int
	Cap    int
	Buf    []V
	Closed bool
	ET     types.Type
	// rendezvous state for unbuffered channels
	sendq   []*chanWaiter
	recvq   []*chanWaiter
	bufVC   [][]int
	closeVC []int
}

type ChanV struct{ C *ChanObj }

type IterV struct {
	// string or map iteration
	Str   *StrV
	Pos   int
	Map   *MapObj
	Order []int
}

func (s StrV) Len() int {
	if s.Sym != nil {
		return len(s.Sym)
	}
	return len(s.S)
}

func (s StrV) Concrete() bool {
	if s.Sym == nil {
		return true
	}
	for _, t := range s.Sym {
		if !t.IsConst() {
			return false
		}
	}
	return true
}

func (s StrV) Go() string {
	if s.Sym == nil {
		return s.S
	}
	b := make([]byte, len(s.Sym))
	for i, t := range s.Sym {
		b[i] = byte(t.Lo)
	}
	return string(b)
}

func (s StrV) At(i int) *Term {
	if s.Sym != nil {
		return s.Sym[i]
	}
	return BVConst(uint64(s.S[i]), 8)
}

func (s StrV) Terms() []*Term {
	if s.Sym != nil {
		return s.Sym
	}
	r := make([]*Term, len(s.S))
	for i := 0; i < len(s.S); i++ {
		r[i] = BVConst(uint64(s.S[i]), 8)
	}
	return r
}

func MkStr(ts []*Term) StrV {
	all := true
	for _, t := range ts {
		if !t.IsConst() {
			all = false
			break
		}
	}
	if all {
		b := make([]byte, len(ts))
		for i, t := range ts {
			b[i] = byte(t.Lo)
		}
		return StrV{S: string(b)}
	}
	if ts == nil {
		ts = []*Term{}
	}
	return StrV{Sym: ts}
}

func (s StrV) Slice(lo, hi int) StrV {
	if s.Sym != nil {
		return MkStr(s.Sym[lo:hi])
	}
	return StrV{S: s.S[lo:hi]}
}

// ---------- type helpers ----------

func intWidth(t types.Type) (w int, signed bool, ok bool) {
	b, isB := t.Underlying().(*types.Basic)
	if !isB {
		return 0, false, false
	}
	switch b.Kind() {
	case types.Int8:
		return 8, true, true
	case types.Int16:
		return 16, true, true
	case types.Int32, types.UntypedRune:
		return 32, true, true
	case types.Int64, types.Int, types.UntypedInt:
		return 64, true, true
	case types.Uint8:
		return 8, false, true
	case types.Uint16:
		return 16, false, true
	case types.Uint32:
		return 32, false, true
	case types.Uint64, types.Uint, types.Uintptr:
		return 64, false, true
	}
	return 0, false, false
}

func isFloat(t types.Type) (Sort, bool) {
	b, isB := t.Underlying().(*types.Basic)
	if !isB {
		return Sort{}, false
	}
	switch b.Kind() {
	case types.Float64, types.UntypedFloat:
		return FP64Sort, true
	case types.Float32:
		return FP32Sort, true
	}
	return Sort{}, false
}

func isBool(t types.Type) bool {
	b, isB := t.Underlying().(*types.Basic)
	return isB && (b.Kind() == types.Bool || b.Kind() == types.UntypedBool)
}

func isString(t types.Type) bool {
	b, isB := t.Underlying().(*types.Basic)
	return isB && (b.Kind() == types.String || b.Kind() == types.UntypedString)
}

func isUnsafePtr(t types.Type) bool {
	b, isB := t.Underlying().(*types.Basic)
	return isB && b.Kind() == types.UnsafePointer
}

func (in *Interp) zero(t types.Type) V {
	switch u := t.Underlying().(type) {
	case *types.Basic:
		if w, _, ok := intWidth(t); ok {
			return BVConst(0, w)
		}
		if s, ok := isFloat(t); ok {
			return &Term{Op: OpConst, S: s}
		}
		if isBool(t) {
			return FalseT
		}
		if isString(t) {
			return StrV{}
		}
		if u.Kind() == types.UnsafePointer {
			return Ptr{}
		}
		if u.Kind() == types.UntypedNil {
			return nil
		}
		if u.Kind() == types.Complex128 || u.Kind() == types.Complex64 {
			return StructV{FP64Const(0), FP64Const(0)}
		}
		panic(fmt.Sprintf("zero: basic %v", u))
	case *types.Pointer:
		return Ptr{}
	case *types.Slice:
		return SliceV{}
	case *types.Interface:
		return IfaceV{}
	case *types.Struct:
		s := make(StructV, u.NumFields())
		for i := range s {
			s[i] = in.zero(u.Field(i).Type())
		}
		return s
	case *types.Array:
		a := make(ArrayV, int(u.Len()))
		for i := range a {
			a[i] = in.zero(u.Elem())
		}
		return a
	case *types.Signature:
		return FuncV{}
	case *types.Map:
		return MapV{}
	case *types.Chan:
		return ChanV{}
	case *types.Tuple:
		tv := make(TupleV, u.Len())
		for i := range tv {
			tv[i] = in.zero(u.At(i).Type())
		}
		return tv
	case *types.TypeParam:
		panic("zero of type param (generics not instantiated)")
	}
	panic(fmt.Sprintf("zero: type %v", t))
}

func isComposite(t types.Type) bool {
	switch t.Underlying().(type) {
	case *types.Struct, *types.Array:
		return true
	}
	return false
}

// newCell allocates a zeroed cell tree for type t.
func (in *Interp) newCell(t types.Type, tag string) *Cell {
	in.cellID++
	c := &Cell{ID: in.cellID, T: t, Tag: tag, Owner: in.curG()}
	switch u := t.Underlying().(type) {
	case *types.Struct:
		c.Kids = make([]*Cell, u.NumFields())
		for i := range c.Kids {
			k := in.newCell(u.Field(i).Type(), "")
			k.Parent, k.Idx = c, i
			c.Kids[i] = k
		}
	case *types.Array:
		n := int(u.Len())
		c.Kids = make([]*Cell, n)
		for i := range c.Kids {
			k := in.newCell(u.Elem(), "")
			k.Parent, k.Idx = c, i
			c.Kids[i] = k
		}
	default:
		c.V = in.zero(t)
	}
	return c
}

// newArrayCell allocates an array cell of n elements of type et.
func (in *Interp) newArrayCell(et types.Type, n int, tag string) *Cell {
	in.cellID++
	c := &Cell{ID: in.cellID, T: types.NewArray(et, int64(n)), Tag: tag, Owner: in.curG()}
	c.Kids = make([]*Cell, n)
	comp := isComposite(et)
	var z V
	if !comp {
		z = in.zero(et)
	}
	for i := range c.Kids {
		var k *Cell
		if comp {
			k = in.newCell(et, "")
		} else {
			in.cellID++
			k = &Cell{ID: in.cellID, T: et, V: z, Owner: c.Owner}
		}
		k.Parent, k.Idx = c, i
		c.Kids[i] = k
	}
	return c
}

func (in *Interp) readCell(c *Cell) V {
	in.noteAccess(c, false)
	if c.Kids == nil {
		if _, ok := c.T.Underlying().(*types.Struct); ok {
			return StructV{}
		}
		if _, ok := c.T.Underlying().(*types.Array); ok {
			return ArrayV{}
		}
		return c.V
	}
	if _, ok := c.T.Underlying().(*types.Struct); ok {
		s := make(StructV, len(c.Kids))
		for i, k := range c.Kids {
			s[i] = in.readCell(k)
		}
		return s
	}
	a := make(ArrayV, len(c.Kids))
	for i, k := range c.Kids {
		a[i] = in.readCell(k)
	}
	return a
}

func (in *Interp) writeCell(c *Cell, v V) {
	in.noteAccess(c, true)
	if c.Kids == nil {
		if in.trailOn && (c.ID <= in.baseCellID || c.ID >= 1<<40) {
			in.noteSharedWrite(c)
		}
		if isComposite(c.T) {
			return // zero-size
		}
		if in.trailOn {
			in.trail = append(in.trail, trailEnt{c: c, old: c.V})
		}
		c.V = v
		return
	}
	switch vv := v.(type) {
	case StructV:
		for i, k := range c.Kids {
			in.writeCell(k, vv[i])
		}
	case ArrayV:
		for i, k := range c.Kids {
			in.writeCell(k, vv[i])
		}
	default:
		panic(fmt.Sprintf("writeCell: composite cell %v gets %T", c.T, v))
	}
}

// writeLeaf stores into a leaf cell (trail-logged).
// noteSharedWrite records a write, performed by golua code while a harness
// runs, to a cell that already existed when the harness started (package-level
// state or something reachable from it): shared mutable state (C20).
func (in *Interp) noteSharedWrite(c *Cell) {
	top := c
	for top.Parent != nil {
		top = top.Parent
	}
	in.noteSharedWriteTag(top.Tag)
}

func (in *Interp) noteSharedWriteTag(tag string) {
	fr := in.curFrame
	if fr == nil || fr.fn.Pkg == nil {
		return
	}
	path := fr.fn.Pkg.Pkg.Path()
	if len(path) < len(RepoModule) || path[:len(RepoModule)] != RepoModule {
		return
	}
	name := fr.fn.Name()
	if len(name) > 5 && (name[:5] == "Verif" || name[:5] == "verif" || name[:2] == "vh") {
		return // the harness itself
	}
	in.SharedWrites = append(in.SharedWrites, fr.fn.String()+" writes "+tag)
}

func (in *Interp) writeLeaf(c *Cell, v V) {
	in.noteAccess(c, true)
	if in.trailOn {
		in.trail = append(in.trail, trailEnt{c: c, old: c.V})
	}
	c.V = v
}

type trailEnt struct {
	c   *Cell
	old V
	fn  func()
}

func (in *Interp) undoTo(mark int) {
	for i := len(in.trail) - 1; i >= mark; i-- {
		e := in.trail[i]
		if e.fn != nil {
			e.fn()
		} else {
			e.c.V = e.old
		}
	}
	in.trail = in.trail[:mark]
}

func (in *Interp) trailFn(fn func()) {
	if in.trailOn {
		in.trail = append(in.trail, trailEnt{fn: fn})
	}
}

// ---------- maps ----------

func (in *Interp) newMap(kt, vt types.Type) *MapObj {
	in.cellID++
	return &MapObj{ID: in.cellID, KT: kt, VT: vt, Index: map[string]int{}}
}

// concKey returns a canonical string for a fully concrete comparable value.
func concKey(v V) (string, bool) {
	switch x := v.(type) {
	case *Term:
		if x.Op != OpConst {
			return "", false
		}
		if x.S.K == SFP64 || x.S.K == SFP32 {
			// +0 and -0 are equal keys; NaN never equal
			if isNaNConst(x) {
				return "", false
			}
			if x.Lo<<1 == 0 {
				return "f0", true
			}
			return fmt.Sprintf("f%x", x.Lo), true
		}
		return fmt.Sprintf("%d:%x:%x", x.S.W, x.Hi, x.Lo), true
	case StrV:
		if !x.Concrete() {
			return "", false
		}
		return "s" + x.Go(), true
	case Ptr:
		if x.C == nil {
			return "p0", true
		}
		return fmt.Sprintf("p%d", x.C.ID), true
	case IfaceV:
		if x.T == nil {
			return "i0", true
		}
		k, ok := concKey(x.V)
		if !ok {
			return "", false
		}
		return "i" + x.T.String() + "|" + k, true
	case StructV:
		var sb strings.Builder
		sb.WriteString("{")
		for _, f := range x {
			k, ok := concKey(f)
			if !ok {
				return "", false
			}
			sb.WriteString(k)
			sb.WriteString(",")
		}
		return sb.String(), true
	case ArrayV:
		var sb strings.Builder
		sb.WriteString("[")
		for _, f := range x {
			k, ok := concKey(f)
			if !ok {
				return "", false
			}
			sb.WriteString(k)
			sb.WriteString(",")
		}
		return sb.String(), true
	case ChanV:
		if x.C == nil {
			return "c0", true
		}
		return fmt.Sprintf("c%d", x.C.ID), true
	case MapV:
		if x.M == nil {
			return "m0", true
		}
		return fmt.Sprintf("m%d", x.M.ID), true
	case FuncV:
		return fmt.Sprintf("fn%p%d", x.Fn, x.ID), true
	case nil:
		return "nil", true
	}
	return "", false
}

// mapFind returns the position of key in m, or -1.  Symbolic comparisons fork.
func (in *Interp) mapFind(m *MapObj, key V) int {
	if k, ok := concKey(key); ok {
		if pos, ok := m.Index[k]; ok && m.Live[pos] {
			return pos
		}
		// still have to compare against symbolic keys stored in the map
		for i, mk := range m.Keys {
			if !m.Live[i] {
				continue
			}
			if _, c := concKey(mk); c {
				continue
			}
			if in.decide(in.equalV(mk, key, m.KT)) {
				return i
			}
		}
		return -1
	}
	for i, mk := range m.Keys {
		if !m.Live[i] {
			continue
		}
		if in.decide(in.equalV(mk, key, m.KT)) {
			return i
		}
	}
	return -1
}

func (in *Interp) mapSet(m *MapObj, key, val V) {
	if in.spec > 0 && m != nil && (m.ID <= in.specBase) {
		panic(&specAbort{"map update in region"})
	}
	if m == nil {
		in.goPanicStr("assignment to entry in nil map")
	}
	if in.trailOn && m.ID <= in.baseCellID {
		// a map that existed before the harness started (package-level state)
		in.noteSharedWriteTag("package-level map")
	}
	pos := in.mapFind(m, key)
	if pos >= 0 {
		old := m.Vals[pos]
		m.Vals[pos] = val
		in.trailFn(func() { m.Vals[pos] = old })
		return
	}
	m.Keys = append(m.Keys, key)
	m.Vals = append(m.Vals, val)
	m.Live = append(m.Live, true)
	m.N++
	p := len(m.Keys) - 1
	k, conc := concKey(key)
	var had bool
	var oldPos int
	if conc {
		oldPos, had = m.Index[k]
		m.Index[k] = p
	}
	in.trailFn(func() {
		m.Keys = m.Keys[:p]
		m.Vals = m.Vals[:p]
		m.Live = m.Live[:p]
		m.N--
		if conc {
			if had {
				m.Index[k] = oldPos
			} else {
				delete(m.Index, k)
			}
		}
	})
}

func (in *Interp) mapDelete(m *MapObj, key V) {
	if m == nil {
		return
	}
	in.specAbortIf("map delete in region")
	pos := in.mapFind(m, key)
	if pos < 0 {
		return
	}
	m.Live[pos] = false
	m.N--
	in.trailFn(func() { m.Live[pos] = true; m.N++ })
}

func typeString(t types.Type) string {
	if t == nil {
		return "<nil>"
	}
	return types.TypeString(t, nil)
}
