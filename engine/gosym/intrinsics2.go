package gosym

import (
	"fmt"
	"go/types"
	"strings"

	"golang.org/x/tools/go/ssa"
)

// goValueOf converts a concrete interpreter value into a Go value usable by
// fmt; ok=false when the value is symbolic or of an unsupported shape.
func (in *Interp) goValueOf(v V, depth int) (interface{}, bool) {
	switch x := v.(type) {
	case IfaceV:
		if x.T == nil {
			return nil, true
		}
		// error / Stringer values: call their method when cheap
		if depth < 2 {
			if m := in.lookupMethod(x.T, "Error"); m != nil && m.Signature.Params().Len() == 0 {
				s, ok := in.tryCallString(m, x.V)
				if ok {
					return errString(s), true
				}
				return nil, false
			}
			if m := in.lookupMethod(x.T, "String"); m != nil && m.Signature.Params().Len() == 0 && m.Signature.Results().Len() == 1 && isString(m.Signature.Results().At(0).Type()) {
				s, ok := in.tryCallString(m, x.V)
				if ok {
					return s, true
				}
				return nil, false
			}
		}
		if t, ok := x.V.(*Term); ok {
			return in.goScalar(t, x.T)
		}
		return in.goValueOf(x.V, depth+1)
	case *Term:
		return nil, false
	case StrV:
		if !x.Concrete() {
			return nil, false
		}
		return x.Go(), true
	case Ptr:
		if x.C == nil {
			return "<nil>", true
		}
		return fmt.Sprintf("0xc%09x", x.C.ID*64), true
	}
	return nil, false
}

func (in *Interp) lookupMethod(t types.Type, name string) *ssa.Function {
	sel := in.Prog.MethodSets.MethodSet(t).Lookup(nil, name)
	if sel == nil {
		return nil
	}
	return in.Prog.MethodValue(sel)
}

type errString string

func (e errString) Error() string { return string(e) }

func (in *Interp) goScalar(t *Term, typ types.Type) (interface{}, bool) {
	if !t.IsConst() {
		return nil, false
	}
	if w, signed, ok := intWidth(typ); ok {
		if signed {
			switch w {
			case 8:
				return int8(t.SInt()), true
			case 16:
				return int16(t.SInt()), true
			case 32:
				return int32(t.SInt()), true
			}
			return t.SInt(), true
		}
		switch w {
		case 8:
			return uint8(t.Lo), true
		case 16:
			return uint16(t.Lo), true
		case 32:
			return uint32(t.Lo), true
		}
		return t.Lo, true
	}
	if s, ok := isFloat(typ); ok {
		if s.K == SFP32 {
			return t.F32(), true
		}
		return t.F64(), true
	}
	if isBool(typ) {
		return t.Lo == 1, true
	}
	return nil, false
}

func (in *Interp) tryCallString(m *ssa.Function, recv V) (s string, ok bool) {
	defer func() {
		if r := recover(); r != nil {
			if _, isPE := r.(*pathEnd); isPE {
				ok = false
				return
			}
			if _, isGP := r.(*goPanic); isGP {
				ok = false
				return
			}
			panic(r)
		}
	}()
	saved := in.curFrame
	res := in.callSSA(m, []V{recv}, nil, in.curFrame)
	in.curFrame = saved
	sv, isS := res.(StrV)
	if !isS || !sv.Concrete() {
		return "", false
	}
	return sv.Go(), true
}

func (in *Interp) variadic(v V) []V {
	s, ok := v.(SliceV)
	if !ok || s.Arr == nil {
		return nil
	}
	r := make([]V, s.Len)
	for i := range r {
		r[i] = in.readCell(s.Arr.Kids[s.Off+i])
	}
	return r
}

// sprintf renders concretely when every operand is concrete, otherwise
// returns an opaque placeholder (message text is not modelled).
func (in *Interp) sprintf(format string, args []V) string {
	gv := make([]interface{}, len(args))
	for i, a := range args {
		g, ok := in.goValueOf(a, 0)
		if !ok {
			return "<fmt:" + format + ">"
		}
		gv[i] = g
	}
	return fmt.Sprintf(format, gv...)
}

func (in *Interp) newError(msg string) V {
	ep := in.Prog.ImportedPackage("errors")
	if ep == nil {
		in.unsupported("package errors not loaded")
	}
	t := ep.Type("errorString").Type()
	c := in.newCell(t, "error")
	in.writeCell(c.Kids[0], StrV{S: msg})
	return IfaceV{T: types.NewPointer(t), V: Ptr{C: c}}
}

var extraIntrinsics []func(in *Interp)

func registerIntrinsics2(in *Interp) {
	r := in.intr
	for _, f := range extraIntrinsics {
		f(in)
	}
	r["fmt.Sprintf"] = func(in *Interp, fr *Frame, a []V) V {
		f := a[0].(StrV)
		if !f.Concrete() {
			return StrV{S: "<fmt:symbolic-format>"}
		}
		return StrV{S: in.sprintf(f.Go(), in.variadic(a[1]))}
	}
	r["fmt.Errorf"] = func(in *Interp, fr *Frame, a []V) V {
		f := a[0].(StrV)
		if !f.Concrete() {
			return in.newError("<fmt:symbolic-format>")
		}
		return in.newError(in.sprintf(strings.ReplaceAll(f.Go(), "%w", "%v"), in.variadic(a[1])))
	}
	sprint := func(ln bool) Intrinsic {
		return func(in *Interp, fr *Frame, a []V) V {
			args := in.variadic(a[0])
			gv := make([]interface{}, len(args))
			for i, x := range args {
				g, ok := in.goValueOf(x, 0)
				if !ok {
					return StrV{S: "<fmt:sprint>"}
				}
				gv[i] = g
			}
			if ln {
				return StrV{S: fmt.Sprintln(gv...)}
			}
			return StrV{S: fmt.Sprint(gv...)}
		}
	}
	// integer rendering: concrete values run strconv from source; a symbolic
	// value gives a placeholder (same "formatting is opaque" stub as fmt)
	for _, n := range []string{"strconv.FormatInt", "strconv.FormatUint", "strconv.Itoa"} {
		name := n
		r[name] = func(in *Interp, fr *Frame, a []V) V {
			if t, ok := a[0].(*Term); ok && t.Op != OpConst {
				return StrV{S: "<int>"}
			}
			fn := in.Prog.ImportedPackage("strconv").Func(strings.TrimPrefix(name, "strconv."))
			saved := in.intr[name]
			delete(in.intr, name)
			defer func() { in.intr[name] = saved }()
			return in.callSSA(fn, a, nil, fr)
		}
	}
	// float rendering (ryu) is not encodable within reach: a symbolic float
	// gives a placeholder; concrete floats run strconv from source
	for _, n := range []string{"strconv.FormatFloat", "strconv.AppendFloat"} {
		name := n
		r[name] = func(in *Interp, fr *Frame, a []V) V {
			fi := 0
			if name == "strconv.AppendFloat" {
				fi = 1
			}
			if t, ok := a[fi].(*Term); ok && t.Op != OpConst {
				if fi == 1 {
					return in.appendOp(a[0].(SliceV), StrV{S: "<float>"}, types.NewSlice(types.Typ[types.Uint8]))
				}
				return StrV{S: "<float>"}
			}
			fn := in.Prog.ImportedPackage("strconv").Func(strings.TrimPrefix(name, "strconv."))
			saved := in.intr[name]
			delete(in.intr, name)
			defer func() { in.intr[name] = saved }()
			return in.callSSA(fn, a, nil, fr)
		}
	}
	r["fmt.Sprint"] = sprint(false)
	r["fmt.Sprintln"] = sprint(true)
	outN := func(in *Interp, fr *Frame, a []V) V {
		in.effect("write:fmt")
		return TupleV{BVConst(0, 64), IfaceV{}}
	}
	for _, n := range []string{"fmt.Fprintf", "fmt.Fprint", "fmt.Fprintln", "fmt.Printf", "fmt.Print", "fmt.Println"} {
		r[n] = outN
	}
	r["errors.As"] = func(in *Interp, fr *Frame, a []V) V {
		err := a[0].(IfaceV)
		target := a[1].(IfaceV)
		tp, ok := target.V.(Ptr)
		if !ok || tp.C == nil {
			in.goPanicStr("errors: target must be a non-nil pointer")
		}
		tt := tp.C.T
		for depth := 0; depth < 10 && err.T != nil; depth++ {
			if it, isI := tt.Underlying().(*types.Interface); isI {
				if in.implements(err.T, it) {
					in.writeCell(tp.C, err)
					return TrueT
				}
			} else if types.Identical(err.T, tt) {
				in.writeCell(tp.C, err.V)
				return TrueT
			}
			m := in.lookupMethod(err.T, "Unwrap")
			if m == nil || m.Signature.Results().Len() != 1 {
				break
			}
			res := in.callSSA(m, []V{err.V}, nil, fr)
			in.curFrame = fr
			next, isI := res.(IfaceV)
			if !isI {
				break
			}
			err = next
		}
		return FalseT
	}
	r["errors.Is"] = func(in *Interp, fr *Frame, a []V) V {
		err := a[0].(IfaceV)
		target := a[1].(IfaceV)
		for depth := 0; depth < 10; depth++ {
			if err.T == nil || target.T == nil {
				return BoolT(err.T == nil && target.T == nil)
			}
			if types.Identical(err.T, target.T) && types.Comparable(err.T) {
				if in.decide(in.equalV(err.V, target.V, err.T)) {
					return TrueT
				}
			}
			m := in.lookupMethod(err.T, "Unwrap")
			if m == nil || m.Signature.Results().Len() != 1 {
				break
			}
			res := in.callSSA(m, []V{err.V}, nil, fr)
			in.curFrame = fr
			next, isI := res.(IfaceV)
			if !isI {
				break
			}
			err = next
		}
		return FalseT
	}
	r["errors.New"] = func(in *Interp, fr *Frame, a []V) V {
		ep := in.Prog.ImportedPackage("errors")
		t := ep.Type("errorString").Type()
		c := in.newCell(t, "error")
		in.writeCell(c.Kids[0], a[0])
		return IfaceV{T: types.NewPointer(t), V: Ptr{C: c}}
	}
	// clock: arbitrary non-decreasing milliseconds
	r[RepoModule+"/runtime.now"] = func(in *Interp, fr *Frame, a []V) V {
		if in.concreteGen != nil {
			// translator validation: no time passes (natively the harness runs in
			// well under the limits the harnesses allow)
			return BVConst(uint64(1_700_000_000_000), 64)
		}
		in.specAbortIf("clock in region")
		t := in.freshVar("clock", BVSort(64))
		if in.lastClock != nil {
			in.define(BVCmp(OpBVUle, in.lastClock, t))
		}
		in.define(BVCmp(OpBVUlt, t, BVConst(1<<62, 64)))
		in.lastClock = t
		return t
	}
}

// ---------- encoding/binary.Read / Write (fixed-size scalars and []byte) ----------

func (in *Interp) orderIsLittle(order V) bool {
	iv, ok := order.(IfaceV)
	if !ok || iv.T == nil {
		in.unsupported("nil byte order")
	}
	name := iv.T.String()
	switch {
	case strings.Contains(name, "littleEndian"):
		return true
	case strings.Contains(name, "bigEndian"):
		return false
	}
	in.unsupported("byte order %s", name)
	return true
}

func (in *Interp) findFunc(pkgPath, name string) *ssa.Function {
	p := in.Prog.ImportedPackage(pkgPath)
	if p == nil {
		in.unsupported("package %s not loaded", pkgPath)
	}
	f := p.Func(name)
	if f == nil {
		in.unsupported("function %s.%s not found", pkgPath, name)
	}
	return f
}

func init() {
	extraIntrinsics = append(extraIntrinsics, func(in *Interp) {
		r := in.intr
		r["encoding/binary.Read"] = func(in *Interp, fr *Frame, a []V) V {
			little := in.orderIsLittle(a[1])
			data := a[2].(IfaceV)
			var n int
			var elemT types.Type
			var dstSlice SliceV
			isSlice := false
			elemBytes := 1
			switch t := data.T.(type) {
			case *types.Pointer:
				elemT = t.Elem()
				if w, _, ok := intWidth(elemT); ok {
					n = w / 8
				} else if s, ok := isFloat(elemT); ok {
					n = 8
					if s.K == SFP32 {
						n = 4
					}
				} else if isBool(elemT) {
					n = 1
				} else {
					in.unsupported("binary.Read into %s", data.T)
				}
			case *types.Slice:
				w, _, ok := intWidth(t.Elem())
				if !ok {
					in.unsupported("binary.Read into %s", data.T)
				}
				dstSlice = data.V.(SliceV)
				elemBytes = w / 8
				n = dstSlice.Len * elemBytes
				isSlice = true
			default:
				in.unsupported("binary.Read into %s", data.T)
			}
			buf := in.newArrayCell(types.Typ[types.Uint8], n, "binary.Read")
			bs := SliceV{Arr: buf, Len: n, Cap: n}
			res := in.callSSA(in.findFunc("io", "ReadFull"), []V{a[0], bs}, nil, fr).(TupleV)
			in.curFrame = fr
			if err := res[1].(IfaceV); err.T != nil {
				return err
			}
			if isSlice {
				for e := 0; e < dstSlice.Len; e++ {
					var t *Term
					for i := 0; i < elemBytes; i++ {
						idx := i
						if !little {
							idx = elemBytes - 1 - i
						}
						b := in.readCell(buf.Kids[e*elemBytes+idx]).(*Term)
						if t == nil {
							t = b
						} else {
							t = Concat(b, t)
						}
					}
					in.writeCell(dstSlice.Arr.Kids[dstSlice.Off+e], t)
				}
				return IfaceV{}
			}
			var t *Term
			for i := 0; i < n; i++ {
				idx := i
				if !little {
					idx = n - 1 - i
				}
				b := in.readCell(buf.Kids[idx]).(*Term)
				if t == nil {
					t = b
				} else {
					t = Concat(b, t)
				}
			}
			var val V = t
			if _, ok := isFloat(elemT); ok {
				val = FPFromBits(t)
			} else if isBool(elemT) {
				val = Not(Eq(t, BVConst(0, 8)))
			}
			in.store(data.V.(Ptr), val)
			return IfaceV{}
		}
		r["encoding/binary.Write"] = func(in *Interp, fr *Frame, a []V) V {
			little := in.orderIsLittle(a[1])
			data := a[2].(IfaceV)
			var bytesT []*Term
			if sl, ok := data.T.Underlying().(*types.Slice); ok {
				w, _, ok2 := intWidth(sl.Elem())
				if !ok2 {
					in.unsupported("binary.Write of %s", data.T)
				}
				s := data.V.(SliceV)
				nb := w / 8
				for i := 0; i < s.Len; i++ {
					t := in.readCell(s.Arr.Kids[s.Off+i]).(*Term)
					for k := 0; k < nb; k++ {
						kk := k
						if !little {
							kk = nb - 1 - k
						}
						bytesT = append(bytesT, Extract(t, 8*kk+7, 8*kk))
					}
				}
			} else {
				var t *Term
				if w, _, ok := intWidth(data.T); ok {
					t = data.V.(*Term)
					_ = w
				} else if _, ok := isFloat(data.T); ok {
					t = in.fpToBits(data.V.(*Term))
				} else if isBool(data.T) {
					t = Ite(data.V.(*Term), BVConst(1, 8), BVConst(0, 8))
				} else {
					in.unsupported("binary.Write of %s", data.T)
				}
				n := t.S.W / 8
				for i := 0; i < n; i++ {
					bytesT = append(bytesT, Extract(t, 8*i+7, 8*i))
				}
				if !little {
					for i, j := 0, len(bytesT)-1; i < j; i, j = i+1, j-1 {
						bytesT[i], bytesT[j] = bytesT[j], bytesT[i]
					}
				}
			}
			buf := in.newArrayCell(types.Typ[types.Uint8], len(bytesT), "binary.Write")
			for i, b := range bytesT {
				buf.Kids[i].V = b
			}
			w := a[0].(IfaceV)
			m := in.lookupMethod(w.T, "Write")
			if m == nil {
				in.unsupported("binary.Write: writer %s has no Write", w.T)
			}
			res := in.callSSA(m, []V{w.V, SliceV{Arr: buf, Len: len(bytesT), Cap: len(bytesT)}}, nil, fr).(TupleV)
			in.curFrame = fr
			return res[1]
		}
	})
}

// ---------- OS primitives as effect events (C08) ----------

// effectStubs are functions that acquire an OS resource.  Reaching one is an
// "effect event"; the call returns zero values and a non-nil error so that the
// path can continue and the harness can inspect verifEffects().
var effectStubs = []string{
	"os.OpenFile", "os.Open", "os.Create", "os.Remove", "os.RemoveAll", "os.Rename", "os.Mkdir", "os.MkdirAll",
	"os.MkdirTemp", "os.CreateTemp", "os.ReadFile", "os.WriteFile", "os.ReadDir", "os.Stat", "os.Lstat", "os.Chdir",
	"os.Setenv", "os.Unsetenv", "os.StartProcess", "os.Pipe", "os.Getwd", "os.Hostname", "os.Executable", "os.Truncate", "os.Chmod", "os.Symlink", "os.Link",
	"io/ioutil.TempFile", "io/ioutil.TempDir", "io/ioutil.ReadFile", "io/ioutil.WriteFile", "io/ioutil.ReadDir",
	"(*os/exec.Cmd).Start", "(*os/exec.Cmd).Run", "(*os/exec.Cmd).Output", "(*os/exec.Cmd).CombinedOutput",
	"plugin.Open", "net.Dial", "net.Listen", "net.DialTimeout",
}

func init() {
	extraIntrinsics = append(extraIntrinsics, func(in *Interp) {
		for _, name := range effectStubs {
			name := name
			in.intr[name] = func(in *Interp, fr *Frame, a []V) V {
				in.effect("os:" + name)
				fn := in.lastCallee
				if fn == nil {
					return nil
				}
				res := fn.Signature.Results()
				mk := func(t types.Type) V {
					if types.Identical(t, types.Universe.Lookup("error").Type()) {
						return in.newError("verif: OS primitive " + name + " not executed")
					}
					return in.zero(t)
				}
				switch res.Len() {
				case 0:
					return nil
				case 1:
					return mk(res.At(0).Type())
				}
				tv := make(TupleV, res.Len())
				for i := range tv {
					tv[i] = mk(res.At(i).Type())
				}
				return tv
			}
		}
	})
}

// InitOSFiles gives os.Stdin/Stdout/Stderr non-nil *os.File values (package os
// is not initialised) and models I/O on already-open files as opaque no-ops.
func (in *Interp) InitOSFiles() {
	p := in.Prog.ImportedPackage("os")
	if p == nil {
		return
	}
	fileT := p.Type("File")
	if fileT == nil {
		return
	}
	for i, n := range []string{"Stdin", "Stdout", "Stderr"} {
		g, ok := p.Members[n].(*ssa.Global)
		if !ok {
			continue
		}
		fc := in.newCell(fileT.Type(), "os."+n)
		// File{ *file }: allocate the inner struct and set its name
		if len(fc.Kids) == 1 {
			if pt, ok := fc.Kids[0].T.(*types.Pointer); ok {
				inner := in.newCell(pt.Elem(), "os.file")
				if st, ok := pt.Elem().Underlying().(*types.Struct); ok {
					for k := 0; k < st.NumFields(); k++ {
						if st.Field(k).Name() == "name" {
							in.writeCell(inner.Kids[k], StrV{S: "/dev/std" + []string{"in", "out", "err"}[i]})
						}
					}
				}
				in.writeCell(fc.Kids[0], Ptr{C: inner})
			}
		}
		in.writeCell(in.globalCell(g), Ptr{C: fc})
	}
}

func init() {
	extraIntrinsics = append(extraIntrinsics, func(in *Interp) {
		r := in.intr
		wr := func(in *Interp, fr *Frame, a []V) V {
			n := in.lenOf(a[1])
			return TupleV{BVConst(uint64(n), 64), IfaceV{}}
		}
		r["(*os.File).Write"] = wr
		r["(*os.File).WriteString"] = wr
		r["(*os.File).Read"] = func(in *Interp, fr *Frame, a []V) V {
			// end of file on every read: content of external files is not modelled
			eof := in.Prog.ImportedPackage("io").Var("EOF")
			return TupleV{BVConst(0, 64), in.readCell(in.globalCell(eof))}
		}
		for _, n := range []string{"(*os.File).Close", "(*os.File).Sync"} {
			r[n] = func(in *Interp, fr *Frame, a []V) V { return IfaceV{} }
		}
		r["(*os.File).Fd"] = func(in *Interp, fr *Frame, a []V) V { return BVConst(3, 64) }
		r["(*os.File).Seek"] = func(in *Interp, fr *Frame, a []V) V { return TupleV{BVConst(0, 64), IfaceV{}} }
	})
}

// ---------- golua's linknamed hash functions ----------
//
// runtime.int64Hash / runtime.efaceHash are Go-runtime internals (seeded per
// process).  Default model: a fixed xor-shift mixing function (cheap for the
// solver, collisions modulo the table mask are still the solver's choice of
// keys).  With HashUF set they are uninterpreted functions, so that results
// hold for every hash function.

func hashMix(x *Term) *Term {
	a := BV2(OpBVLshr, x, BVConst(7, 64))
	b := BV2(OpBVLshr, x, BVConst(19, 64))
	return BV2(OpBVXor, x, BV2(OpBVXor, a, b))
}

func init() {
	extraIntrinsics = append(extraIntrinsics, func(in *Interp) {
		r := in.intr
		r[RepoModule+"/runtime.goRuntimeInt64Hash"] = func(in *Interp, fr *Frame, a []V) V {
			x := a[0].(*Term)
			if in.HashUF {
				return UF("H64", BVSort(64), x)
			}
			return hashMix(x)
		}
		r[RepoModule+"/runtime.goRuntimeEfaceHash"] = func(in *Interp, fr *Frame, a []V) V {
			iv := a[0].(IfaceV)
			if iv.T == nil {
				return BVConst(0x9e3779b97f4a7c15, 64)
			}
			tid := BVConst(in.typeID(iv.T)*0x100000001b3, 64)
			switch x := iv.V.(type) {
			case *Term:
				v := x
				switch {
				case v.S.K == SBool:
					v = Ite(v, BVConst(1, 64), BVConst(0, 64))
				case v.S.K != SBV:
					v = in.fpToBits(v)
				}
				if v.S.W < 64 {
					v = Zext(v, 64)
				}
				if in.HashUF {
					return UF("Hscalar", BVSort(64), BV2(OpBVXor, tid, v))
				}
				return hashMix(BV2(OpBVXor, tid, v))
			case StrV:
				h := BVConst(0xcbf29ce484222325, 64)
				for i := 0; i < x.Len(); i++ {
					h = BV2(OpBVXor, BV2(OpBVMul, h, BVConst(31, 64)), Zext(x.At(i), 64))
				}
				h = BV2(OpBVXor, h, BVConst(uint64(x.Len())<<56, 64))
				if in.HashUF {
					return UF("Hstr", BVSort(64), h)
				}
				return hashMix(h)
			case Ptr:
				id := uint64(0)
				if x.C != nil {
					id = uint64(x.C.ID)
				}
				if in.HashUF {
					return UF("Hobj", BVSort(64), BVConst(id, 64))
				}
				return hashMix(BVConst(id*0x9e3779b1+in.typeID(iv.T), 64))
			case SliceV:
				id := uint64(0)
				if x.Arr != nil {
					id = uint64(x.Arr.ID)
				}
				return hashMix(BVConst(id*0x9e3779b1+in.typeID(iv.T), 64))
			case StructV:
				k, ok := concKey(x)
				if !ok {
					in.unsupported("hash of symbolic struct")
				}
				h := uint64(0xcbf29ce484222325)
				for i := 0; i < len(k); i++ {
					h = (h ^ uint64(k[i])) * 0x100000001b3
				}
				return BVConst(h, 64)
			}
			in.unsupported("efaceHash of %T", iv.V)
			return nil
		}
	})
}

// ---------- math/bits (compact terms instead of 256-way table lookups) ----------

func bitLen(x *Term) *Term {
	w := x.S.W
	if x.IsConst() {
		n := 0
		for v := x.Lo; v != 0; v >>= 1 {
			n++
		}
		return BVConst(uint64(n), 64)
	}
	res := BVConst(0, 64)
	for i := 0; i < w; i++ {
		// highest set bit wins: build from low to high
		bit := Eq(Extract(x, i, i), BVConst(1, 1))
		res = Ite(bit, BVConst(uint64(i+1), 64), res)
	}
	return res
}

func trailingZeros(x *Term) *Term {
	w := x.S.W
	res := BVConst(uint64(w), 64)
	for i := w - 1; i >= 0; i-- {
		bit := Eq(Extract(x, i, i), BVConst(1, 1))
		res = Ite(bit, BVConst(uint64(i), 64), res)
	}
	return res
}

func init() {
	extraIntrinsics = append(extraIntrinsics, func(in *Interp) {
		r := in.intr
		for _, n := range []string{"Len", "Len64", "Len32", "Len16", "Len8"} {
			r["math/bits."+n] = func(in *Interp, fr *Frame, a []V) V { return bitLen(a[0].(*Term)) }
		}
		for _, n := range []string{"LeadingZeros", "LeadingZeros64", "LeadingZeros32", "LeadingZeros16", "LeadingZeros8"} {
			r["math/bits."+n] = func(in *Interp, fr *Frame, a []V) V {
				x := a[0].(*Term)
				return BV2(OpBVSub, BVConst(uint64(x.S.W), 64), bitLen(x))
			}
		}
		for _, n := range []string{"TrailingZeros", "TrailingZeros64", "TrailingZeros32", "TrailingZeros16", "TrailingZeros8"} {
			r["math/bits."+n] = func(in *Interp, fr *Frame, a []V) V { return trailingZeros(a[0].(*Term)) }
		}
	})
}

func init() {
	extraIntrinsics = append(extraIntrinsics, func(in *Interp) {
		r := in.intr
		// sync.Pool: no pooling (Get builds a new value, Put drops it)
		r["(*sync.Pool).Get"] = func(in *Interp, fr *Frame, a []V) V {
			p := a[0].(Ptr)
			st := p.C.T.Underlying().(*types.Struct)
			for k := 0; k < st.NumFields(); k++ {
				if st.Field(k).Name() == "New" {
					f := in.readCell(p.C.Kids[k]).(FuncV)
					if f.Fn == nil {
						return IfaceV{}
					}
					res := in.call(fr, f, nil, nil)
					in.curFrame = fr
					return res
				}
			}
			return IfaceV{}
		}
		r["(*sync.Pool).Put"] = func(in *Interp, fr *Frame, a []V) V { return nil }
		r["(*sync.Map).Load"] = func(in *Interp, fr *Frame, a []V) V { return TupleV{IfaceV{}, FalseT} }
		r["(*sync.Map).Store"] = func(in *Interp, fr *Frame, a []V) V { return nil }
		r["(*sync.Map).LoadOrStore"] = func(in *Interp, fr *Frame, a []V) V { return TupleV{a[2], FalseT} }
	})
}

// process-wide state in the standard library (C20)
func init() {
	extraIntrinsics = append(extraIntrinsics, func(in *Interp) {
		r := in.intr
		r["math/rand.Seed"] = func(in *Interp, fr *Frame, a []V) V { in.effect("global:math/rand.Seed"); return nil }
		rnd := func(w int, name string) Intrinsic {
			return func(in *Interp, fr *Frame, a []V) V {
				in.effect("global:math/rand." + name)
				if in.concreteGen != nil {
					return BVConst(0, w)
				}
				return in.freshVar("rand", BVSort(w))
			}
		}
		r["math/rand.Uint64"] = rnd(64, "Uint64")
		r["math/rand.Int63"] = func(in *Interp, fr *Frame, a []V) V {
			v := rnd(64, "Int63")(in, fr, a).(*Term)
			return BV2(OpBVLshr, v, BVConst(1, 64))
		}
		r["math/rand.Int63n"] = func(in *Interp, fr *Frame, a []V) V {
			in.effect("global:math/rand.Int63n")
			n := a[0].(*Term)
			if in.concreteGen != nil {
				return BVConst(0, 64)
			}
			v := in.freshVar("rand", BVSort(64))
			in.define(And(BVCmp(OpBVSle, BVConst(0, 64), v), BVCmp(OpBVSlt, v, n)))
			return v
		}
		r["math/rand.Float64"] = func(in *Interp, fr *Frame, a []V) V {
			in.effect("global:math/rand.Float64")
			if in.concreteGen != nil {
				return FP64Const(0)
			}
			b := in.freshVar("randf", BVSort(64))
			f := FPFromBits(b)
			in.define(And(FPCmp(OpFPLe, FP64Const(0), f), FPCmp(OpFPLt, f, FP64Const(1))))
			return f
		}
		r["runtime/debug.SetGCPercent"] = func(in *Interp, fr *Frame, a []V) V {
			in.effect("global:debug.SetGCPercent")
			return BVConst(100, 64)
		}
	})
}
