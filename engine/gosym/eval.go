package gosym

// Concrete evaluation of terms under a solver model (model-guided branch
// decisions: the side of a branch that the current witness model satisfies is
// feasible without a query).

func (in *Interp) setModel(m map[string]ModelValue) {
	in.model = m
	in.evalMemo = nil
}

// eval returns the constant value of t under in.model, or nil when some
// variable is not covered by the model or an operator cannot be folded.
func (in *Interp) eval(t *Term) *Term {
	if t.Op == OpConst {
		return t
	}
	if in.model == nil {
		return nil
	}
	if in.evalMemo == nil {
		in.evalMemo = map[*Term]*Term{}
	}
	if r, ok := in.evalMemo[t]; ok {
		return r
	}
	r := in.eval0(t)
	if r != nil && r.Op != OpConst {
		r = nil
	}
	in.evalMemo[t] = r
	return r
}

func (in *Interp) eval0(t *Term) *Term {
	if t.Op == OpVar {
		mv, ok := in.model[t.Name]
		if !ok {
			return nil
		}
		switch t.S.K {
		case SBool:
			return BoolT(mv.Lo == 1)
		case SBV:
			return BVConst128(mv.Hi, mv.Lo, t.S.W)
		default:
			return &Term{Op: OpConst, S: t.S, Lo: mv.Lo}
		}
	}
	if t.Op == OpUF {
		return nil
	}
	// short-circuit forms
	switch t.Op {
	case OpIte:
		c := in.eval(t.Args[0])
		if c == nil {
			return nil
		}
		if c.Lo == 1 {
			return in.eval(t.Args[1])
		}
		return in.eval(t.Args[2])
	case OpAnd:
		a := in.eval(t.Args[0])
		if a != nil && a.Lo == 0 {
			return FalseT
		}
		b := in.eval(t.Args[1])
		if b != nil && b.Lo == 0 {
			return FalseT
		}
		if a == nil || b == nil {
			return nil
		}
		return TrueT
	case OpOr:
		a := in.eval(t.Args[0])
		if a != nil && a.Lo == 1 {
			return TrueT
		}
		b := in.eval(t.Args[1])
		if b != nil && b.Lo == 1 {
			return TrueT
		}
		if a == nil || b == nil {
			return nil
		}
		return FalseT
	}
	args := make([]*Term, len(t.Args))
	for i, a := range t.Args {
		args[i] = in.eval(a)
		if args[i] == nil {
			return nil
		}
	}
	switch t.Op {
	case OpNot:
		return Not(args[0])
	case OpEq:
		return Eq(args[0], args[1])
	case OpBVAdd, OpBVSub, OpBVMul, OpBVUDiv, OpBVURem, OpBVSDiv, OpBVSRem, OpBVAnd, OpBVOr, OpBVXor, OpBVShl, OpBVLshr, OpBVAshr:
		if t.S.W > 64 {
			return nil
		}
		return BV2(t.Op, args[0], args[1])
	case OpBVUlt, OpBVUle, OpBVSlt, OpBVSle:
		if args[0].S.W > 64 {
			return nil
		}
		return BVCmp(t.Op, args[0], args[1])
	case OpBVNot:
		return BVNot(args[0])
	case OpBVNeg:
		return BVNeg(args[0])
	case OpConcat:
		return Concat(args[0], args[1])
	case OpExtract:
		return Extract(args[0], t.A, t.B)
	case OpZext:
		return Zext(args[0], t.S.W)
	case OpSext:
		return Sext(args[0], t.S.W)
	case OpFPAdd, OpFPSub, OpFPMul, OpFPDiv:
		return FP2(t.Op, args[0], args[1])
	case OpFPLt, OpFPLe, OpFPEq:
		return FPCmp(t.Op, args[0], args[1])
	case OpFPNeg:
		return FPNeg(args[0])
	case OpFPAbs:
		return FPAbs(args[0])
	case OpFPIsNaN:
		return FPIsNaN(args[0])
	case OpFPIsInf:
		return FPIsInf(args[0])
	case OpFPRound:
		return FPRound(args[0], t.A)
	case OpFPSqrt:
		return FPSqrt(args[0])
	case OpFPFromSBV:
		return FPFromBV(args[0], true, t.S)
	case OpFPFromUBV:
		return FPFromBV(args[0], false, t.S)
	case OpFPFromFP:
		return FPFromFP(args[0], t.S)
	case OpFPFromBits:
		return FPFromBits(args[0])
	case OpFPToSBV:
		if args[0].S.K == SFP64 && t.A == 64 {
			f := args[0].F64()
			if f != f || f >= two63 || f < -two63 {
				return nil // unspecified in SMT-LIB; callers guard
			}
			return BVConst(uint64(int64(f)), 64)
		}
		if args[0].S.K == SFP64 && t.A == 32 {
			f := args[0].F64()
			if f != f || f >= 2147483648.0 || f <= -2147483649.0 {
				return nil
			}
			return BVConst(uint64(uint32(int32(f))), 32)
		}
		return nil
	}
	return nil
}

// evalBool evaluates a condition under the current model.
func (in *Interp) evalBool(c *Term) (val bool, ok bool) {
	r := in.eval(c)
	if r == nil || r.S.K != SBool {
		return false, false
	}
	return r.Lo == 1, true
}
