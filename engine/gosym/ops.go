package gosym

import (
	"fmt"
	"go/constant"
	"go/token"
	"go/types"
	"math"
	"math/big"
	"unicode/utf8"

	"golang.org/x/tools/go/ssa"
)

func (in *Interp) constV(c *ssa.Const) V {
	if v, ok := in.consts[c]; ok {
		return v
	}
	v := in.constV0(c)
	in.consts[c] = v
	return v
}

func (in *Interp) constV0(c *ssa.Const) V {
	t := c.Type()
	if c.Value == nil {
		return in.zero(t)
	}
	if w, signed, ok := intWidth(t); ok {
		var u uint64
		if signed {
			i, exact := constant.Int64Val(constant.ToInt(c.Value))
			if !exact {
				bi, _ := new(big.Int).SetString(constant.ToInt(c.Value).ExactString(), 10)
				i = int64(bi.Uint64())
			}
			u = uint64(i)
		} else {
			var exact bool
			u, exact = constant.Uint64Val(constant.ToInt(c.Value))
			if !exact {
				i, _ := constant.Int64Val(constant.ToInt(c.Value))
				u = uint64(i)
			}
		}
		return BVConst(u, w)
	}
	if s, ok := isFloat(t); ok {
		f, _ := constant.Float64Val(c.Value)
		if s.K == SFP32 {
			f32, _ := constant.Float32Val(c.Value)
			return FP32Const(f32)
		}
		return FP64Const(f)
	}
	if isBool(t) {
		return BoolT(constant.BoolVal(c.Value))
	}
	if isString(t) {
		return StrV{S: constant.StringVal(c.Value)}
	}
	if b, ok := t.Underlying().(*types.Basic); ok && (b.Kind() == types.Complex128 || b.Kind() == types.Complex64) {
		re, _ := constant.Float64Val(constant.Real(c.Value))
		im, _ := constant.Float64Val(constant.Imag(c.Value))
		return StructV{FP64Const(re), FP64Const(im)}
	}
	panic(fmt.Sprintf("const of type %v", t))
}

// ---------- loads / stores ----------

func (in *Interp) load(p Ptr, t types.Type) V {
	if p.C == nil {
		in.goPanicStr("invalid memory address or nil pointer dereference")
	}
	if p.SymIdx != nil {
		return in.loadSym(p)
	}
	if p.Re == nil {
		return in.readCell(p.C)
	}
	return in.loadReinterpret(p)
}

func (in *Interp) loadSym(p Ptr) V {
	// ite chain over elements Off..Off+N-1 (bounds were checked by indexAddr)
	var res V
	w := p.SymIdx.S.W
	for i := p.N - 1; i >= 0; i-- {
		ev := in.readCell(p.C.Kids[p.Off+i])
		if res == nil {
			res = ev
			continue
		}
		c := Eq(p.SymIdx, BVConst(uint64(i), w))
		res = in.iteV(c, ev, res)
	}
	return res
}

// iteV builds an if-then-else over values of scalar/struct-of-scalar kinds.
func (in *Interp) iteV(c *Term, a, b V) V {
	switch x := a.(type) {
	case *Term:
		return Ite(c, x, b.(*Term))
	case StructV:
		y := b.(StructV)
		r := make(StructV, len(x))
		for i := range x {
			r[i] = in.iteV(c, x[i], y[i])
		}
		return r
	case ArrayV:
		y := b.(ArrayV)
		r := make(ArrayV, len(x))
		for i := range x {
			r[i] = in.iteV(c, x[i], y[i])
		}
		return r
	}
	if k1, ok1 := concKey(a); ok1 {
		if k2, ok2 := concKey(b); ok2 && k1 == k2 {
			return a
		}
	}
	// non-scalar: fork
	if in.decide(c) {
		return a
	}
	return b
}

func (in *Interp) store(p Ptr, v V) {
	if p.C == nil {
		in.goPanicStr("invalid memory address or nil pointer dereference")
	}
	if p.SymIdx != nil {
		w := p.SymIdx.S.W
		for i := 0; i < p.N; i++ {
			k := p.C.Kids[p.Off+i]
			c := Eq(p.SymIdx, BVConst(uint64(i), w))
			old := in.readCell(k)
			in.writeCell(k, in.iteV(c, v, old))
		}
		return
	}
	if p.Re != nil {
		in.storeReinterpret(p, v)
		return
	}
	in.writeCell(p.C, v)
}

func (in *Interp) typeID(t types.Type) uint64 {
	if t == nil {
		return 0
	}
	s := t.String()
	if id, ok := in.typeIDs[s]; ok {
		return id
	}
	id := uint64(0x1000 + 16*len(in.typeIDs))
	in.typeIDs[s] = id
	return id
}

func (in *Interp) loadReinterpret(p Ptr) V {
	c := p.C
	re := p.Re
	// interface{} viewed as uintptr / [2]uintptr
	if _, isIface := c.T.Underlying().(*types.Interface); isIface {
		iv := in.readCell(c).(IfaceV)
		if w, _, ok := intWidth(re); ok && w == 64 {
			if p.Sub == 0 {
				return BVConst(in.typeID(iv.T), 64)
			}
			return in.ifaceDataWord(iv)
		}
		if arr, ok := re.Underlying().(*types.Array); ok && arr.Len() == 2 {
			return ArrayV{BVConst(in.typeID(iv.T), 64), in.ifaceDataWord(iv)}
		}
	}
	// float64 <-> uint64/int64
	if s, ok := isFloat(c.T); ok {
		if w, _, ok2 := intWidth(re); ok2 && (w == 64 && s.K == SFP64 || w == 32 && s.K == SFP32) {
			return in.fpToBits(in.readCell(c).(*Term))
		}
	}
	if w, _, ok := intWidth(c.T); ok {
		if s, ok2 := isFloat(re); ok2 && (w == 64 && s.K == SFP64 || w == 32 && s.K == SFP32) {
			return in.bitsToFP(in.readCell(c).(*Term))
		}
		if w2, _, ok2 := intWidth(re); ok2 && w2 == w {
			return in.readCell(c)
		}
		// narrower view of a wider integer: little-endian (amd64) low bytes
		if w2, _, ok2 := intWidth(re); ok2 && w2 < w && !(w == 8 && c.Parent != nil) {
			return Extract(in.readCell(c).(*Term), w2-1, 0)
		}
		// byte element of an array viewed as a wider little-endian integer
		if w == 8 && c.Parent != nil {
			if w2, _, ok2 := intWidth(re); ok2 && w2%8 == 0 {
				n := w2 / 8
				if c.Idx+n <= len(c.Parent.Kids) {
					var t *Term
					for i := 0; i < n; i++ {
						b := in.readCell(c.Parent.Kids[c.Idx+i]).(*Term)
						if t == nil {
							t = b
						} else {
							t = Concat(b, t)
						}
					}
					return t
				}
			}
		}
		// wider integer viewed as a byte array
		if arr, ok2 := re.Underlying().(*types.Array); ok2 {
			if ew, _, ok3 := intWidth(arr.Elem()); ok3 && ew == 8 && int(arr.Len())*8 == w {
				t := in.readCell(c).(*Term)
				a := make(ArrayV, arr.Len())
				for i := range a {
					a[i] = Extract(t, 8*i+7, 8*i)
				}
				return a
			}
		}
	}
	// string viewed as uintptr (data pointer) – opaque identity
	if isString(c.T) {
		if w, _, ok := intWidth(re); ok && w == 64 {
			return BVConst(uint64(0xc000000000)+uint64(c.ID)*64, 64)
		}
	}
	in.unsupported("unsafe load of %s as %s", c.T, re)
	return nil
}

func (in *Interp) ifaceDataWord(iv IfaceV) V {
	switch x := iv.V.(type) {
	case Ptr:
		if x.C == nil {
			return BVConst(0, 64)
		}
		return BVConst(uint64(0xc000000000)+uint64(x.C.ID)*64, 64)
	case nil:
		return BVConst(0, 64)
	case MapV:
		if x.M == nil {
			return BVConst(0, 64)
		}
		return BVConst(uint64(0xc000000000)+uint64(x.M.ID)*64, 64)
	}
	in.unsupported("iface data word of %T", iv.V)
	return nil
}

func (in *Interp) storeReinterpret(p Ptr, v V) {
	c := p.C
	if s, ok := isFloat(c.T); ok {
		if w, _, ok2 := intWidth(p.Re); ok2 && (w == 64 && s.K == SFP64 || w == 32 && s.K == SFP32) {
			in.writeCell(c, in.bitsToFP(v.(*Term)))
			return
		}
	}
	if w, _, ok := intWidth(c.T); ok {
		if s, ok2 := isFloat(p.Re); ok2 && (w == 64 && s.K == SFP64 || w == 32 && s.K == SFP32) {
			in.writeCell(c, in.fpToBits(v.(*Term)))
			return
		}
		if w2, _, ok2 := intWidth(p.Re); ok2 && w2 == w {
			in.writeCell(c, v)
			return
		}
		if arr, ok2 := p.Re.Underlying().(*types.Array); ok2 {
			if ew, _, ok3 := intWidth(arr.Elem()); ok3 && ew == 8 && int(arr.Len())*8 == w {
				a := v.(ArrayV)
				var t *Term
				for i := range a {
					if t == nil {
						t = a[i].(*Term)
					} else {
						t = Concat(a[i].(*Term), t)
					}
				}
				in.writeCell(c, t)
				return
			}
		}
	}
	in.unsupported("unsafe store to %s as %s", c.T, p.Re)
}

// fpToBits returns the IEEE bit pattern of f as a BV term.
func (in *Interp) fpToBits(f *Term) *Term {
	if f.Op == OpConst {
		if f.S.K == SFP64 {
			return BVConst(f.Lo, 64)
		}
		return BVConst(f.Lo, 32)
	}
	if f.Op == OpFPFromBits {
		return f.Args[0]
	}
	if b, ok := in.fpBits[f]; ok {
		return b
	}
	// structurally identical float terms share their bit pattern variable
	key := f.Key()
	if key != "" {
		if b, ok := in.fpBitsByKey[key]; ok {
			in.fpBits[f] = b
			return b
		}
	}
	w := 64
	if f.S.K == SFP32 {
		w = 32
	}
	b := in.freshVar("fpbits", BVSort(w))
	in.fpBits[f] = b
	if key != "" {
		in.fpBitsByKey[key] = b
	}
	in.define(Eq(FPFromBits(b), f))
	return b
}

func (in *Interp) bitsToFP(b *Term) *Term {
	return FPFromBits(b)
}

// ---------- unop ----------

func (in *Interp) unop(fr *Frame, x *ssa.UnOp) V {
	v := in.get(fr, x.X)
	switch x.Op {
	case token.MUL:
		return in.load(v.(Ptr), x.Type())
	case token.SUB:
		t := v.(*Term)
		if t.S.K == SBV {
			return BVNeg(t)
		}
		return FPNeg(t)
	case token.XOR:
		return BVNot(v.(*Term))
	case token.NOT:
		return Not(v.(*Term))
	case token.ARROW:
		val, ok := in.chanRecv(v.(ChanV))
		if x.CommaOk {
			return TupleV{val, BoolT(ok)}
		}
		return val
	}
	panic(fmt.Sprintf("unop %v", x.Op))
}

// ---------- binop ----------

func (in *Interp) binop(op token.Token, tx, ty types.Type, x, y V) V {
	switch op {
	case token.EQL:
		return in.equalV(x, y, tx)
	case token.NEQ:
		return Not(in.equalV(x, y, tx))
	}
	if xs, ok := x.(StrV); ok {
		ys := y.(StrV)
		switch op {
		case token.ADD:
			if xs.Sym == nil && ys.Sym == nil {
				return StrV{S: xs.S + ys.S}
			}
			return MkStr(append(append([]*Term{}, xs.Terms()...), ys.Terms()...))
		case token.LSS:
			return in.strLess(xs, ys, false)
		case token.LEQ:
			return in.strLess(xs, ys, true)
		case token.GTR:
			return in.strLess(ys, xs, false)
		case token.GEQ:
			return in.strLess(ys, xs, true)
		}
		panic("string binop")
	}
	if sv, ok := x.(StructV); ok && len(sv) == 2 {
		// complex numbers: minimal support
		yv := y.(StructV)
		switch op {
		case token.ADD:
			return StructV{FP2(OpFPAdd, sv[0].(*Term), yv[0].(*Term)), FP2(OpFPAdd, sv[1].(*Term), yv[1].(*Term))}
		}
		in.unsupported("complex binop")
	}
	a, okA := x.(*Term)
	b, okB := y.(*Term)
	if !okA || !okB {
		panic(fmt.Sprintf("binop %v on %T, %T", op, x, y))
	}
	if a.S.K == SFP64 || a.S.K == SFP32 {
		switch op {
		case token.ADD:
			return FP2(OpFPAdd, a, b)
		case token.SUB:
			return FP2(OpFPSub, a, b)
		case token.MUL:
			return FP2(OpFPMul, a, b)
		case token.QUO:
			return FP2(OpFPDiv, a, b)
		case token.LSS:
			return FPCmp(OpFPLt, a, b)
		case token.LEQ:
			return FPCmp(OpFPLe, a, b)
		case token.GTR:
			return FPCmp(OpFPLt, b, a)
		case token.GEQ:
			return FPCmp(OpFPLe, b, a)
		}
		panic("float binop")
	}
	if a.S.K == SBool {
		switch op {
		case token.AND, token.LAND:
			return And(a, b)
		case token.OR, token.LOR:
			return Or(a, b)
		}
		panic("bool binop")
	}
	_, signed, _ := intWidth(tx)
	w := a.S.W
	switch op {
	case token.ADD:
		return BV2(OpBVAdd, a, b)
	case token.SUB:
		return BV2(OpBVSub, a, b)
	case token.MUL:
		return BV2(OpBVMul, a, b)
	case token.QUO, token.REM:
		if in.decide(Eq(b, BVConst(0, w))) {
			in.goPanicStr("integer divide by zero")
		}
		if op == token.QUO && w == 64 {
			if q := in.mulDivIdiom(a, b, signed); q != nil {
				return q
			}
		}
		if signed {
			if op == token.QUO {
				return BV2(OpBVSDiv, a, b)
			}
			return BV2(OpBVSRem, a, b)
		}
		if op == token.QUO {
			return BV2(OpBVUDiv, a, b)
		}
		return BV2(OpBVURem, a, b)
	case token.AND:
		return BV2(OpBVAnd, a, b)
	case token.OR:
		return BV2(OpBVOr, a, b)
	case token.XOR:
		return BV2(OpBVXor, a, b)
	case token.AND_NOT:
		return BV2(OpBVAnd, a, BVNot(b))
	case token.SHL, token.SHR:
		_, ysigned, _ := intWidth(ty)
		if ysigned {
			if in.decide(BVCmp(OpBVSlt, b, BVConst(0, b.S.W))) {
				in.goPanicStr("negative shift amount")
			}
		}
		var sop Op
		switch {
		case op == token.SHL:
			sop = OpBVShl
		case signed:
			sop = OpBVAshr
		default:
			sop = OpBVLshr
		}
		if b.S.W <= w {
			return BV2(sop, a, Zext(b, w))
		}
		big := BVCmp(OpBVUle, BVConst(uint64(w), b.S.W), b)
		var over *Term
		if sop == OpBVAshr {
			over = BV2(OpBVAshr, a, BVConst(uint64(w-1), w))
		} else {
			over = BVConst(0, w)
		}
		return Ite(big, over, BV2(sop, a, Extract(b, w-1, 0)))
	case token.LSS:
		if signed {
			return BVCmp(OpBVSlt, a, b)
		}
		return BVCmp(OpBVUlt, a, b)
	case token.LEQ:
		if signed {
			return BVCmp(OpBVSle, a, b)
		}
		return BVCmp(OpBVUle, a, b)
	case token.GTR:
		if signed {
			return BVCmp(OpBVSlt, b, a)
		}
		return BVCmp(OpBVUlt, b, a)
	case token.GEQ:
		if signed {
			return BVCmp(OpBVSle, b, a)
		}
		return BVCmp(OpBVUle, b, a)
	}
	panic(fmt.Sprintf("binop %v", op))
}

func (in *Interp) strEq(a, b StrV) *Term {
	if a.Len() != b.Len() {
		return FalseT
	}
	if a.Sym == nil && b.Sym == nil {
		return BoolT(a.S == b.S)
	}
	r := TrueT
	for i := 0; i < a.Len(); i++ {
		r = And(r, Eq(a.At(i), b.At(i)))
		if r.IsFalse() {
			return r
		}
	}
	return r
}

// strLess: lexicographic a<b (orEq: a<=b).
func (in *Interp) strLess(a, b StrV, orEq bool) *Term {
	if a.Sym == nil && b.Sym == nil {
		if orEq {
			return BoolT(a.S <= b.S)
		}
		return BoolT(a.S < b.S)
	}
	n := a.Len()
	if b.Len() < n {
		n = b.Len()
	}
	// result for common prefix equal
	var tail *Term
	if orEq {
		tail = BoolT(a.Len() <= b.Len())
	} else {
		tail = BoolT(a.Len() < b.Len())
	}
	r := tail
	for i := n - 1; i >= 0; i-- {
		x, y := a.At(i), b.At(i)
		r = Ite(Eq(x, y), r, BVCmp(OpBVUlt, x, y))
	}
	return r
}

func (in *Interp) equalV(x, y V, t types.Type) *Term {
	switch a := x.(type) {
	case *Term:
		b := y.(*Term)
		if a.S.K == SFP64 || a.S.K == SFP32 {
			return FPCmp(OpFPEq, a, b)
		}
		return Eq(a, b)
	case StrV:
		return in.strEq(a, y.(StrV))
	case Ptr:
		b := y.(Ptr)
		if a.SymIdx != nil || b.SymIdx != nil {
			in.unsupported("comparison of symbolic pointers")
		}
		return BoolT(a.C == b.C)
	case IfaceV:
		b, ok := y.(IfaceV)
		if !ok {
			panic(fmt.Sprintf("equalV iface vs %T", y))
		}
		if a.T == nil || b.T == nil {
			return BoolT(a.T == nil && b.T == nil)
		}
		if !types.Identical(a.T, b.T) {
			return FalseT
		}
		if !types.Comparable(a.T) {
			panic(&goPanic{Val: IfaceV{T: types.Typ[types.String], V: StrV{S: "comparing uncomparable type " + a.T.String()}}, Msg: "runtime error: comparing uncomparable type " + a.T.String()})
		}
		return in.equalV(a.V, b.V, a.T)
	case StructV:
		b := y.(StructV)
		r := TrueT
		st, _ := t.Underlying().(*types.Struct)
		for i := range a {
			var ft types.Type
			if st != nil {
				ft = st.Field(i).Type()
			}
			r = And(r, in.equalV(a[i], b[i], ft))
		}
		return r
	case ArrayV:
		b := y.(ArrayV)
		r := TrueT
		var et types.Type
		if at, ok := t.Underlying().(*types.Array); ok {
			et = at.Elem()
		}
		for i := range a {
			r = And(r, in.equalV(a[i], b[i], et))
		}
		return r
	case SliceV:
		b := y.(SliceV)
		// only comparison with nil is legal
		return BoolT(a.Arr == nil && b.Arr == nil)
	case MapV:
		b := y.(MapV)
		return BoolT(a.M == b.M)
	case ChanV:
		b := y.(ChanV)
		return BoolT(a.C == b.C)
	case FuncV:
		b := y.(FuncV)
		return BoolT(a.Fn == nil && a.Builtin == nil && b.Fn == nil && b.Builtin == nil)
	case nil:
		return BoolT(y == nil)
	}
	panic(fmt.Sprintf("equalV %T", x))
}

// ---------- conversions ----------

const (
	two63 = 9223372036854775808.0
)

// floatToInt implements Go's amd64 float->int conversion.
func (in *Interp) floatToInt(f *Term, w int, signed bool) *Term {
	if f.S.K == SFP32 {
		f = FPFromFP(f, FP64Sort)
	}
	if f.Op == OpConst {
		x := f.F64()
		switch {
		case signed && w == 64:
			return BVConst(uint64(cvttsd2sq(x)), 64)
		case signed && w == 32:
			return BVConst(uint64(uint32(cvttsd2sl(x))), 32)
		case signed:
			return BVConst(uint64(cvttsd2sl(x)), w)
		case w == 64:
			if x < two63 {
				return BVConst(uint64(cvttsd2sq(x)), 64)
			}
			return BVConst(uint64(cvttsd2sq(x-two63))|1<<63, 64)
		default:
			return BVConst(uint64(cvttsd2sq(x)), w)
		}
	}
	conv64 := func(f *Term) *Term {
		inRange := And(FPCmp(OpFPLe, FP64Const(-two63), f), FPCmp(OpFPLt, f, FP64Const(two63)))
		return Ite(inRange, FPToBVRaw(f, true, 64), BVConst(1<<63, 64))
	}
	switch {
	case signed && w == 64:
		return conv64(f)
	case signed:
		inRange := And(FPCmp(OpFPLt, FP64Const(-2147483649.0), f), FPCmp(OpFPLt, f, FP64Const(2147483648.0)))
		r := Ite(inRange, FPToBVRaw(f, true, 32), BVConst(1<<31, 32))
		return Extract(r, w-1, 0)
	case w == 64:
		lt := FPCmp(OpFPLt, f, FP64Const(two63))
		hi := BV2(OpBVOr, conv64(FP2(OpFPSub, f, FP64Const(two63))), BVConst(1<<63, 64))
		return Ite(lt, conv64(f), hi)
	default:
		return Extract(conv64(f), w-1, 0)
	}
}

func cvttsd2sq(x float64) int64 {
	if x != x || x >= two63 || x < -two63 {
		return math.MinInt64
	}
	return int64(x)
}

func cvttsd2sl(x float64) int32 {
	if x != x || x >= 2147483648.0 || x <= -2147483649.0 {
		return math.MinInt32
	}
	return int32(x)
}

func (in *Interp) convert(dst, src types.Type, v V) V {
	ud, us := dst.Underlying(), src.Underlying()
	// unsafe.Pointer conversions
	if isUnsafePtr(dst) {
		switch x := v.(type) {
		case Ptr:
			return x
		case *Term:
			if x.IsConst() && x.Lo == 0 {
				return Ptr{}
			}
			in.unsupported("uintptr -> unsafe.Pointer")
		}
	}
	if isUnsafePtr(src) {
		if pt, ok := ud.(*types.Pointer); ok {
			p := v.(Ptr)
			if p.C == nil {
				return Ptr{}
			}
			if p.Re == nil && types.Identical(p.C.T, pt.Elem()) {
				return p
			}
			// first-field / same-layout views
			if p.C.Kids != nil && len(p.C.Kids) > 0 && types.Identical(p.C.Kids[0].T, pt.Elem()) {
				return Ptr{C: p.C.Kids[0]}
			}
			return Ptr{C: p.C, Re: pt.Elem()}
		}
		if _, _, ok := intWidth(dst); ok {
			p := v.(Ptr)
			if p.C == nil {
				return BVConst(0, 64)
			}
			return BVConst(uint64(0xc000000000)+uint64(p.C.ID)*64, 64)
		}
	}
	if wd, _, ok := intWidth(dst); ok {
		if ws, ssigned, ok2 := intWidth(src); ok2 {
			t := v.(*Term)
			switch {
			case wd == ws:
				return t
			case wd < ws:
				return Extract(t, wd-1, 0)
			case ssigned:
				return Sext(t, wd)
			default:
				return Zext(t, wd)
			}
		}
		if _, ok2 := isFloat(src); ok2 {
			_, dsigned, _ := intWidth(dst)
			return in.floatToInt(v.(*Term), wd, dsigned)
		}
	}
	if sd, ok := isFloat(dst); ok {
		if _, ssigned, ok2 := intWidth(src); ok2 {
			return FPFromBV(v.(*Term), ssigned, sd)
		}
		if _, ok2 := isFloat(src); ok2 {
			return FPFromFP(v.(*Term), sd)
		}
	}
	if isString(dst) {
		if _, _, ok := intWidth(src); ok {
			t := v.(*Term)
			if !t.IsConst() {
				in.unsupported("string(symbolic rune)")
			}
			r := rune(t.SInt())
			if t.S.W == 64 && (t.SInt() > 0x10ffff || t.SInt() < 0) {
				r = utf8.RuneError
			}
			return StrV{S: string(r)}
		}
		if sl, ok := us.(*types.Slice); ok {
			s := v.(SliceV)
			ew, _, _ := intWidth(sl.Elem())
			if ew == 8 {
				ts := make([]*Term, s.Len)
				for i := 0; i < s.Len; i++ {
					ts[i] = in.readCell(s.Arr.Kids[s.Off+i]).(*Term)
				}
				return MkStr(ts)
			}
			// []rune
			var rs []rune
			for i := 0; i < s.Len; i++ {
				t := in.readCell(s.Arr.Kids[s.Off+i]).(*Term)
				if !t.IsConst() {
					in.unsupported("string([]rune) symbolic")
				}
				rs = append(rs, rune(t.SInt()))
			}
			return StrV{S: string(rs)}
		}
	}
	if sl, ok := ud.(*types.Slice); ok && isString(src) {
		s := v.(StrV)
		ew, _, _ := intWidth(sl.Elem())
		if ew == 8 {
			n := s.Len()
			arr := in.newArrayCell(sl.Elem(), n, "[]byte(string)")
			for i := 0; i < n; i++ {
				arr.Kids[i].V = s.At(i)
			}
			return SliceV{Arr: arr, Len: n, Cap: n}
		}
		if !s.Concrete() {
			in.unsupported("[]rune(symbolic string)")
		}
		rs := []rune(s.Go())
		arr := in.newArrayCell(sl.Elem(), len(rs), "[]rune(string)")
		for i, r := range rs {
			arr.Kids[i].V = BVConst(uint64(r), 32)
		}
		return SliceV{Arr: arr, Len: len(rs), Cap: len(rs)}
	}
	// same underlying representation (named pointer types etc.)
	switch v.(type) {
	case Ptr, SliceV, MapV, ChanV, FuncV, StructV, ArrayV, StrV:
		return v
	}
	in.unsupported("conversion %s -> %s", src, dst)
	return nil
}

// ---------- indexing / slicing ----------

func (in *Interp) indexAddr(fr *Frame, x *ssa.IndexAddr) V {
	base := in.get(fr, x.X)
	idx := in.get(fr, x.Index).(*Term)
	var arr *Cell
	off, n := 0, 0
	switch b := base.(type) {
	case SliceV:
		arr, off, n = b.Arr, b.Off, b.Len
	case Ptr:
		if b.C == nil {
			in.goPanicStr("invalid memory address or nil pointer dereference")
		}
		if b.Re != nil {
			if at, ok := b.Re.Underlying().(*types.Array); ok {
				i := in.concInt(idx, "index into reinterpreted array")
				if i < 0 || i >= int(at.Len()) {
					in.goPanicStr("index out of range")
				}
				return Ptr{C: b.C, Re: at.Elem(), Sub: i}
			}
			in.unsupported("IndexAddr on reinterpreted pointer")
		}
		arr, off, n = b.C, 0, len(b.C.Kids)
	default:
		panic(fmt.Sprintf("indexAddr on %T", base))
	}
	// sign: index is int-typed (possibly narrower); extend to 64
	if idx.S.W < 64 {
		if _, s, _ := intWidth(x.Index.Type()); s {
			idx = Sext(idx, 64)
		} else {
			idx = Zext(idx, 64)
		}
	}
	idx = in.fold(idx)
	if idx.Op == OpConst {
		i := idx.SInt()
		if i < 0 || i >= int64(n) {
			in.goPanicStr(fmt.Sprintf("index out of range [%d] with length %d", i, n))
		}
		return Ptr{C: arr.Kids[off+int(i)]}
	}
	inb := BVCmp(OpBVUlt, idx, BVConst(uint64(n), 64))
	if !in.decide(inb) {
		in.goPanicStr(fmt.Sprintf("index out of range [symbolic] with length %d", n))
	}
	if n == 1 {
		return Ptr{C: arr.Kids[off]}
	}
	// element kind decides: scalar => symbolic pointer; otherwise concretise
	if n > 0 && arr.Kids[off].Kids == nil && in.scalarCell(arr.Kids[off]) && n <= in.symIdxMax() {
		return Ptr{C: arr, SymIdx: idx, Off: off, N: n}
	}
	i, ok := in.concretizeInt(idx, 0, int64(n-1))
	if !ok {
		panic(&pathEnd{Kind: "infeasible", Msg: "index concretisation"})
	}
	return Ptr{C: arr.Kids[off+int(i)]}
}

func (in *Interp) symIdxMax() int { return 512 }

func (in *Interp) scalarCell(c *Cell) bool {
	_, ok := c.V.(*Term)
	return ok
}

func (in *Interp) indexOp(fr *Frame, x *ssa.Index) V {
	base := in.get(fr, x.X)
	idx := in.get(fr, x.Index).(*Term)
	if idx.S.W < 64 {
		if _, s, _ := intWidth(x.Index.Type()); s {
			idx = Sext(idx, 64)
		} else {
			idx = Zext(idx, 64)
		}
	}
	switch b := base.(type) {
	case ArrayV:
		return in.indexList(idx, len(b), func(i int) V { return b[i] })
	case StrV:
		return in.indexList(idx, b.Len(), func(i int) V { return b.At(i) })
	}
	panic(fmt.Sprintf("index on %T", base))
}

func (in *Interp) indexList(idx *Term, n int, at func(int) V) V {
	idx = in.fold(idx)
	if idx.Op == OpConst {
		i := idx.SInt()
		if i < 0 || i >= int64(n) {
			in.goPanicStr(fmt.Sprintf("index out of range [%d] with length %d", i, n))
		}
		return at(int(i))
	}
	inb := BVCmp(OpBVUlt, idx, BVConst(uint64(n), 64))
	if !in.decide(inb) {
		in.goPanicStr(fmt.Sprintf("index out of range [symbolic] with length %d", n))
	}
	var res V
	for i := n - 1; i >= 0; i-- {
		ev := at(i)
		if res == nil {
			res = ev
			continue
		}
		res = in.iteV(Eq(idx, BVConst(uint64(i), 64)), ev, res)
	}
	return res
}

// boundInt turns an optional slice bound into a concrete int (forking over
// 0..max when symbolic).
func (in *Interp) boundInt(v V, def int, max int) int {
	if v == nil {
		return def
	}
	t := v.(*Term)
	if t.S.W < 64 {
		t = Sext(t, 64)
	}
	t = in.fold(t)
	if t.Op == OpConst {
		return int(t.SInt())
	}
	inb := BVCmp(OpBVUle, t, BVConst(uint64(max), 64))
	if !in.decide(inb) {
		in.goPanicStr("slice bounds out of range [symbolic]")
	}
	i, ok := in.concretizeInt(t, 0, int64(max))
	if !ok {
		panic(&pathEnd{Kind: "infeasible", Msg: "slice bound concretisation"})
	}
	return int(i)
}

func (in *Interp) sliceOp(fr *Frame, x *ssa.Slice) V {
	base := in.get(fr, x.X)
	var lo, hi, mx V
	if x.Low != nil {
		lo = in.get(fr, x.Low)
	}
	if x.High != nil {
		hi = in.get(fr, x.High)
	}
	if x.Max != nil {
		mx = in.get(fr, x.Max)
	}
	switch b := base.(type) {
	case StrV:
		n := b.Len()
		h := in.boundInt(hi, n, n)
		if h < 0 || h > n {
			in.goPanicStr(fmt.Sprintf("slice bounds out of range [:%d] with length %d", h, n))
		}
		l := in.boundInt(lo, 0, h)
		if l < 0 || l > h {
			in.goPanicStr(fmt.Sprintf("slice bounds out of range [%d:%d]", l, h))
		}
		return b.Slice(l, h)
	case SliceV:
		c := b.Cap
		m := in.boundInt(mx, c, c)
		if m < 0 || m > c {
			in.goPanicStr(fmt.Sprintf("slice bounds out of range [::%d] with capacity %d", m, c))
		}
		defHi := b.Len
		limit := c
		if mx != nil {
			limit = m
		}
		h := in.boundInt(hi, defHi, limit)
		if h < 0 || h > limit {
			in.goPanicStr(fmt.Sprintf("slice bounds out of range [:%d] with capacity %d", h, limit))
		}
		l := in.boundInt(lo, 0, h)
		if l < 0 || l > h {
			in.goPanicStr(fmt.Sprintf("slice bounds out of range [%d:%d]", l, h))
		}
		if b.Arr == nil {
			return SliceV{}
		}
		return SliceV{Arr: b.Arr, Off: b.Off + l, Len: h - l, Cap: m - l}
	case Ptr: // *array
		if b.C == nil {
			in.goPanicStr("invalid memory address or nil pointer dereference")
		}
		c := len(b.C.Kids)
		m := in.boundInt(mx, c, c)
		if m < 0 || m > c {
			in.goPanicStr("slice bounds out of range")
		}
		h := in.boundInt(hi, c, m)
		if h < 0 || h > m {
			in.goPanicStr(fmt.Sprintf("slice bounds out of range [:%d] with capacity %d", h, m))
		}
		l := in.boundInt(lo, 0, h)
		if l < 0 || l > h {
			in.goPanicStr(fmt.Sprintf("slice bounds out of range [%d:%d]", l, h))
		}
		return SliceV{Arr: b.C, Off: l, Len: h - l, Cap: m - l}
	}
	panic(fmt.Sprintf("slice of %T", base))
}

// ---------- map lookup, type assert, range ----------

func (in *Interp) lookup(fr *Frame, x *ssa.Lookup) V {
	base := in.get(fr, x.X)
	key := in.get(fr, x.Index)
	switch b := base.(type) {
	case StrV:
		idx := key.(*Term)
		if idx.S.W < 64 {
			idx = Sext(idx, 64)
		}
		return in.indexList(idx, b.Len(), func(i int) V { return b.At(i) })
	case MapV:
		mt := x.X.Type().Underlying().(*types.Map)
		var val V
		found := false
		if b.M != nil {
			// constant-content map with a symbolic scalar key: ITE chain
			if kt, ok := key.(*Term); ok && kt.Op != OpConst && in.mapIsConcreteScalar(b.M) {
				val, found = nil, false
				v, f := in.mapLookupITE(b.M, kt, mt.Elem())
				if x.CommaOk {
					return TupleV{v, f}
				}
				return v
			}
			pos := in.mapFind(b.M, key)
			if pos >= 0 {
				val, found = b.M.Vals[pos], true
			}
		}
		if !found {
			val = in.zero(mt.Elem())
		}
		if x.CommaOk {
			return TupleV{val, BoolT(found)}
		}
		return val
	}
	panic(fmt.Sprintf("lookup on %T", base))
}

func (in *Interp) mapIsConcreteScalar(m *MapObj) bool {
	for i, k := range m.Keys {
		if !m.Live[i] {
			continue
		}
		t, ok := k.(*Term)
		if !ok || t.Op != OpConst {
			return false
		}
		if _, ok := m.Vals[i].(*Term); !ok {
			if _, ok2 := m.Vals[i].(StructV); !ok2 {
				return false
			}
		}
	}
	return true
}

func (in *Interp) mapLookupITE(m *MapObj, key *Term, vt types.Type) (V, *Term) {
	var res V = in.zero(vt)
	found := FalseT
	for i := len(m.Keys) - 1; i >= 0; i-- {
		if !m.Live[i] {
			continue
		}
		c := Eq(key, m.Keys[i].(*Term))
		res = in.iteV(c, m.Vals[i], res)
		found = Or(c, found)
	}
	return res, found
}

func (in *Interp) implements(t types.Type, it *types.Interface) bool {
	k := [2]types.Type{t, it}
	if r, ok := in.implCache[k]; ok {
		return r
	}
	r := types.Implements(t, it)
	in.implCache[k] = r
	return r
}

func (in *Interp) typeAssert(x *ssa.TypeAssert, iv IfaceV) V {
	var ok bool
	var res V
	if it, isI := x.AssertedType.Underlying().(*types.Interface); isI {
		ok = iv.T != nil && in.implements(iv.T, it)
		if ok {
			res = iv
		} else {
			res = IfaceV{}
		}
	} else {
		ok = iv.T != nil && types.Identical(iv.T, x.AssertedType)
		if ok {
			res = iv.V
		} else {
			res = in.zero(x.AssertedType)
		}
	}
	if x.CommaOk {
		return TupleV{res, BoolT(ok)}
	}
	if !ok {
		msg := fmt.Sprintf("interface conversion: interface is %s, not %s", typeString(iv.T), typeString(x.AssertedType))
		panic(&goPanic{Val: IfaceV{T: types.Typ[types.String], V: StrV{S: msg}}, Msg: msg, Stack: in.stackString()})
	}
	return res
}

func (in *Interp) rangeIter(v V) V {
	switch x := v.(type) {
	case StrV:
		return &IterV{Str: &x}
	case MapV:
		it := &IterV{Map: x.M}
		if x.M != nil {
			for i := range x.M.Keys {
				if x.M.Live[i] {
					it.Order = append(it.Order, i)
				}
			}
			if in.MapOrderReverse {
				for i, j := 0, len(it.Order)-1; i < j; i, j = i+1, j-1 {
					it.Order[i], it.Order[j] = it.Order[j], it.Order[i]
				}
			}
		}
		return it
	}
	panic(fmt.Sprintf("range over %T", v))
}

func (in *Interp) iterNext(it *IterV, x *ssa.Next) V {
	if x.IsString {
		s := *it.Str
		if it.Pos >= s.Len() {
			return TupleV{FalseT, BVConst(0, 64), BVConst(0, 32)}
		}
		if !s.Concrete() {
			// symbolic string: decode a rune; ASCII fast path, otherwise unsupported
			b := s.At(it.Pos)
			if in.decide(BVCmp(OpBVUlt, b, BVConst(0x80, 8))) {
				p := it.Pos
				it.Pos++
				return TupleV{TrueT, BVConst(uint64(p), 64), Zext(b, 32)}
			}
			in.unsupported("range over symbolic non-ASCII string")
		}
		gs := s.Go()
		r, sz := utf8.DecodeRuneInString(gs[it.Pos:])
		p := it.Pos
		it.Pos += sz
		return TupleV{TrueT, BVConst(uint64(p), 64), BVConst(uint64(r), 32)}
	}
	m := it.Map
	tt := x.Type().(*types.Tuple)
	for it.Pos < len(it.Order) {
		i := it.Order[it.Pos]
		it.Pos++
		if m.Live[i] {
			return TupleV{TrueT, m.Keys[i], m.Vals[i]}
		}
	}
	return TupleV{FalseT, in.zeroOrNil(tt.At(1).Type()), in.zeroOrNil(tt.At(2).Type())}
}

func (in *Interp) zeroOrNil(t types.Type) V {
	if b, ok := t.(*types.Basic); ok && b.Kind() == types.Invalid {
		return nil
	}
	return in.zero(t)
}


// mulDivIdiom recognises the overflow-check idiom (b*c)/b with a constant c
// and a non-zero b (the caller has excluded b == 0): the quotient is c exactly
// when b*c does not overflow, which is two comparisons on b.  In the
// overflowing case the quotient differs from c (if (b*c mod 2^64)/b were c the
// remainder would be a multiple of 2^64 smaller than |b|, i.e. 0, and the
// product exact); that is all that is kept of it: the quotient becomes a fresh
// variable q != c (a sound over-approximation; counterexamples are replayed).
func (in *Interp) mulDivIdiom(a, b *Term, signed bool) *Term {
	if a.Op != OpBVMul || len(a.Args) != 2 {
		return nil
	}
	same := func(x, y *Term) bool {
		if x == y {
			return true
		}
		kx, ky := x.Key(), y.Key()
		return kx != "" && kx == ky
	}
	var c *Term
	switch {
	case a.Args[0].Op == OpConst && same(a.Args[1], b):
		c = a.Args[0]
	case a.Args[1].Op == OpConst && same(a.Args[0], b):
		c = a.Args[1]
	default:
		return nil
	}
	var noOv *Term
	if signed {
		cv := c.SInt()
		const maxI, minI = int64(^uint64(0) >> 1), -int64(^uint64(0)>>1) - 1
		k := func(v int64) *Term { return BVConst(uint64(v), 64) }
		switch {
		case cv == 0:
			noOv = BoolT(true)
		case cv == -1:
			noOv = Not(Eq(b, k(minI)))
		case cv > 0:
			noOv = And(BVCmp(OpBVSle, b, k(maxI/cv)), BVCmp(OpBVSle, k(minI/cv), b))
		default:
			noOv = And(BVCmp(OpBVSle, k(maxI/cv), b), BVCmp(OpBVSle, b, k(minI/cv)))
		}
		return in.overflowedQuotient(noOv, c)
	}
	cv := c.Lo
	if cv == 0 {
		return c
	}
	noOv = BVCmp(OpBVUle, b, BVConst(^uint64(0)/cv, 64))
	return in.overflowedQuotient(noOv, c)
}

func (in *Interp) overflowedQuotient(noOv, c *Term) *Term {
	if noOv.IsTrue() {
		return c
	}
	q := in.freshVar("ovq", c.S)
	in.define(Not(Eq(q, c)))
	return Ite(noOv, c, q)
}
