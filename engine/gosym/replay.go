package gosym

import (
	"bytes"
	"encoding/json"
	"fmt"
	"os"
	"os/exec"
	"path/filepath"
	"sort"
	"strings"
	"time"

	"golang.org/x/tools/go/ssa"
)

// NativeBuild compiles, for one repo package, a test binary that contains the
// real package code plus the harness overlay files and a generated replay
// driver.  It is used to replay solver models and for translator validation.
type NativeBuild struct {
	Bin     string
	PkgDir  string // repo-relative
	Repo    string
	BuildLog string
	Deadline time.Duration // per-run deadline of RunSingle (default 150 s)
}

func goEnv() []string {
	return append(os.Environ(), "GOFLAGS=-mod=mod", "GOPROXY=off", "GOSUMDB=off", "GOTOOLCHAIN=local")
}

// BuildNative builds the replay test binary for package reldir.
func BuildNative(l *Loaded, repo, reldir, genDir, tags string, pkg *ssa.Package, race ...bool) (*NativeBuild, error) {
	os.MkdirAll(genDir, 0o755)
	fns := FindHarnesses([]*ssa.Package{pkg}, "VerifH_", "VerifT_")
	var sb strings.Builder
	sb.WriteString("//go:build verif\n\npackage " + pkg.Pkg.Name() + "\n\n")
	sb.WriteString(`import (
	"encoding/json"
	"fmt"
	"os"
	"strings"
	"testing"
)

var verifHarnessTable = map[string]func(){
`)
	for _, f := range fns {
		fmt.Fprintf(&sb, "\t%q: %s,\n", f.Name(), f.Name())
	}
	sb.WriteString(`}

type verifCase struct {
	H string            ` + "`json:\"h\"`" + `
	A map[string]string ` + "`json:\"a\"`" + `
}

func verifRunCase(c verifCase) (out string) {
	verifReset()
	verifAssign = c.A
	if verifAssign == nil {
		verifAssign = map[string]string{}
	}
	f := verifHarnessTable[c.H]
	if f == nil {
		return "NOHARNESS"
	}
	status := "ok"
	func() {
		defer func() {
			if r := recover(); r != nil {
				if _, ok := r.(verifAssumeFailed); ok {
					status = "assume"
					return
				}
				status = "panic"
				fmt.Printf("VERIF-PANIC %v\n", r)
			}
		}()
		f()
	}()
	return status + "|" + strings.Join(verifFailures, ",") + "|" + strings.Join(verifReachedList, ",")
}

func TestVerifReplay(t *testing.T) {
	if p := os.Getenv("VERIF_BATCH"); p != "" {
		b, err := os.ReadFile(p)
		if err != nil {
			t.Fatal(err)
		}
		var cases []verifCase
		if err := json.Unmarshal(b, &cases); err != nil {
			t.Fatal(err)
		}
		for i, c := range cases {
			fmt.Printf("VERIF-CASE %d %s\n", i, verifRunCase(c))
		}
		return
	}
	verifLoad()
	out := verifRunCase(verifCase{H: os.Getenv("VERIF_HARNESS"), A: verifAssign})
	fmt.Printf("VERIF-OUTCOME %s\n", out)
}
`)
	drv := filepath.Join(genDir, strings.ReplaceAll(reldir, "/", "_")+"_replay_test.go")
	if err := os.WriteFile(drv, []byte(sb.String()), 0o644); err != nil {
		return nil, err
	}
	ov := map[string]string{}
	for virt, real := range l.Overlay {
		if filepath.Dir(virt) == filepath.Join(repo, reldir) {
			ov[virt] = real
		}
	}
	ov[filepath.Join(repo, reldir, "zz_verif_replay_test.go")] = drv
	ovb, _ := json.Marshal(map[string]interface{}{"Replace": ov})
	ovPath := filepath.Join(genDir, strings.ReplaceAll(reldir, "/", "_")+"_overlay.json")
	if err := os.WriteFile(ovPath, ovb, 0o644); err != nil {
		return nil, err
	}
	bin := filepath.Join(genDir, strings.ReplaceAll(reldir, "/", "_")+".test")
	args := []string{"test", "-c", "-o", bin, "-tags", tags, "-vet=off", "-ldflags=-checklinkname=0", "-overlay", ovPath}
	if len(race) > 0 && race[0] {
		args = append(args, "-race")
	}
	args = append(args, "./"+reldir)
	cmd := exec.Command("go", args...)
	cmd.Dir = repo
	cmd.Env = goEnv()
	out, err := cmd.CombinedOutput()
	nb := &NativeBuild{Bin: bin, PkgDir: reldir, Repo: repo, BuildLog: string(out)}
	if err != nil {
		return nb, fmt.Errorf("native build of %s failed: %v\n%s", reldir, err, out)
	}
	return nb, nil
}

// RunSingle replays one assignment; returns the outcome string and raw output.
func (nb *NativeBuild) RunSingle(harness string, assign map[string]string, tier string) (string, string, error) {
	f, err := os.CreateTemp("", "verif-assign-*.json")
	if err != nil {
		return "", "", err
	}
	defer os.Remove(f.Name())
	json.NewEncoder(f).Encode(assign)
	f.Close()
	cmd := exec.Command(nb.Bin, "-test.run", "^TestVerifReplay$", "-test.v", "-test.timeout", "120s")
	cmd.Dir = filepath.Join(nb.Repo, nb.PkgDir)
	cmd.Env = append(os.Environ(), "VERIF_ASSIGN="+f.Name(), "VERIF_HARNESS="+harness, "VERIF_TIER="+tier)
	var buf bytes.Buffer
	cmd.Stdout, cmd.Stderr = &buf, &buf
	done := make(chan error, 1)
	cmd.Start()
	go func() { done <- cmd.Wait() }()
	select {
	case <-done:
	case <-time.After(nb.deadline()):
		cmd.Process.Kill()
		return "timeout||", buf.String(), nil
	}
	out := buf.String()
	if strings.Contains(out, "WARNING: DATA RACE") {
		return "race||", out, nil
	}
	for _, line := range strings.Split(out, "\n") {
		if strings.HasPrefix(line, "VERIF-OUTCOME ") {
			return strings.TrimPrefix(line, "VERIF-OUTCOME "), out, nil
		}
	}
	// crashed hard (fatal error, os.Exit, unrecovered panic in another goroutine)
	return "crash||", out, nil
}

func (nb *NativeBuild) deadline() time.Duration {
	if nb.Deadline > 0 {
		return nb.Deadline
	}
	return 150 * time.Second
}

type BatchCase struct {
	H string            `json:"h"`
	A map[string]string `json:"a"`
}

// RunBatch runs many cases in one process; returns outcome strings by index
// ("" when the process died before reaching the case).
func (nb *NativeBuild) RunBatch(cases []BatchCase, tier string) ([]string, string, error) {
	f, err := os.CreateTemp("", "verif-batch-*.json")
	if err != nil {
		return nil, "", err
	}
	defer os.Remove(f.Name())
	json.NewEncoder(f).Encode(cases)
	f.Close()
	cmd := exec.Command(nb.Bin, "-test.run", "^TestVerifReplay$", "-test.v", "-test.timeout", "600s")
	cmd.Dir = filepath.Join(nb.Repo, nb.PkgDir)
	cmd.Env = append(os.Environ(), "VERIF_BATCH="+f.Name(), "VERIF_TIER="+tier)
	var buf bytes.Buffer
	cmd.Stdout, cmd.Stderr = &buf, &buf
	cmd.Run()
	res := make([]string, len(cases))
	for _, line := range strings.Split(buf.String(), "\n") {
		if strings.HasPrefix(line, "VERIF-CASE ") {
			var i int
			var rest string
			parts := strings.SplitN(strings.TrimPrefix(line, "VERIF-CASE "), " ", 2)
			fmt.Sscanf(parts[0], "%d", &i)
			if len(parts) > 1 {
				rest = parts[1]
			}
			if i >= 0 && i < len(res) {
				res[i] = rest
			}
		}
	}
	return res, buf.String(), nil
}

func ModelToAssign(m map[string]ModelValue) map[string]string {
	a := map[string]string{}
	for k, v := range m {
		a[k] = fmt.Sprintf("%#x", v.Lo)
	}
	return a
}

// ---------- concrete mode (translator validation) ----------

// ConcreteOutcome runs harness fn with nondets taken from gen (deterministic
// pseudo-random by name) and returns the outcome string in the same format
// as the native driver, plus the assignment used.
func (in *Interp) ConcreteOutcome(fn *ssa.Function, gen func(name string, w int) uint64) (outcome string, assign map[string]string, skip string) {
	in.resetPath(nil)
	in.H = newHarnessRun(fn.Name())
	in.concreteGen = gen
	in.concreteAssign = map[string]string{}
	in.concFailures = nil
	in.concReached = nil
	defer func() {
		in.concreteGen = nil
		assign = in.concreteAssign
		r := recover()
		if r == nil {
			return
		}
		switch e := r.(type) {
		case *pathEnd:
			switch e.Kind {
			case "infeasible":
				outcome = "assume|" + strings.Join(in.concFailures, ",") + "|" + strings.Join(in.concReached, ",")
			default:
				skip = e.Kind + ": " + e.Msg
			}
		case *goPanic:
			outcome = "panic|" + strings.Join(in.concFailures, ",") + "|" + strings.Join(in.concReached, ",")
		default:
			panic(r)
		}
	}()
	in.callSSA(fn, nil, nil, nil)
	outcome = "ok|" + strings.Join(in.concFailures, ",") + "|" + strings.Join(in.concReached, ",")
	return
}

func sortedStrings(m map[string]bool) []string {
	var r []string
	for k := range m {
		r = append(r, k)
	}
	sort.Strings(r)
	return r
}
