package gosym

import (
	"fmt"
	"go/types"
	"strings"
)

func (in *Interp) allocEvent(size *Term) {
	in.specAbortIf("alloc event in region")
	in.Effects = append(in.Effects, "alloc:"+size.String())
	in.maxTerms = append(in.maxTerms, size)
	if in.allocFatal {
		// an allocation of a size the program controls and nothing bounds: in
		// the real runtime a fatal out-of-memory error, which no recover() stops
		panic(&pathEnd{Kind: "fatal", Msg: "fatal: allocation of unbounded size " + trunc160(size.String()) + " @ " + in.stackString()})
	}
	if in.AllocEventIsPanic {
		panic(&goPanic{Val: IfaceV{T: types.Typ[types.String], V: StrV{S: "huge allocation"}},
			Msg: "fatal: allocation of unbounded size " + size.String(), Stack: in.stackString()})
	}
}

func (in *Interp) effect(s string) {
	in.specAbortIf("effect in region")
	in.Effects = append(in.Effects, s)
}

func termArg(v V) *Term { return v.(*Term) }

func registerIntrinsics(in *Interp) {
	r := in.intr
	nop := func(in *Interp, fr *Frame, a []V) V { return nil }

	// ----- math -----
	r["math.Float64bits"] = func(in *Interp, fr *Frame, a []V) V { return in.fpToBits(termArg(a[0])) }
	r["math.Float64frombits"] = func(in *Interp, fr *Frame, a []V) V { return FPFromBits(termArg(a[0])) }
	r["math.Float32bits"] = func(in *Interp, fr *Frame, a []V) V { return in.fpToBits(termArg(a[0])) }
	r["math.Float32frombits"] = func(in *Interp, fr *Frame, a []V) V { return FPFromBits(termArg(a[0])) }
	r["math.Floor"] = func(in *Interp, fr *Frame, a []V) V { return FPRound(termArg(a[0]), 1) }
	r["math.Ceil"] = func(in *Interp, fr *Frame, a []V) V { return FPRound(termArg(a[0]), 2) }
	r["math.Trunc"] = func(in *Interp, fr *Frame, a []V) V { return FPRound(termArg(a[0]), 3) }
	r["math.RoundToEven"] = func(in *Interp, fr *Frame, a []V) V { return FPRound(termArg(a[0]), 0) }
	r["math.Sqrt"] = func(in *Interp, fr *Frame, a []V) V { return FPSqrt(termArg(a[0])) }
	r["math.Abs"] = func(in *Interp, fr *Frame, a []V) V { return FPAbs(termArg(a[0])) }
	r["math.IsNaN"] = func(in *Interp, fr *Frame, a []V) V { return FPIsNaN(termArg(a[0])) }
	r["math.IsInf"] = func(in *Interp, fr *Frame, a []V) V {
		f, sign := termArg(a[0]), termArg(a[1])
		inf := FPIsInf(f)
		pos := FPCmp(OpFPLt, FP64Const(0), f)
		sgt := BVCmp(OpBVSlt, BVConst(0, 64), sign)
		slt := BVCmp(OpBVSlt, sign, BVConst(0, 64))
		// sign>0: +Inf only; sign<0: -Inf only; sign==0: either
		return And(inf, Ite(sgt, pos, Ite(slt, Not(pos), TrueT)))
	}
	r["math.Signbit"] = func(in *Interp, fr *Frame, a []V) V {
		b := in.fpToBits(termArg(a[0]))
		return Eq(Extract(b, 63, 63), BVConst(1, 1))
	}
	r["math.Copysign"] = func(in *Interp, fr *Frame, a []V) V {
		x, y := in.fpToBits(termArg(a[0])), in.fpToBits(termArg(a[1]))
		return FPFromBits(Concat(Extract(y, 63, 63), Extract(x, 62, 0)))
	}
	// math.Mod: uninterpreted result constrained by the fmod contract
	r["math.Mod"] = func(in *Interp, fr *Frame, a []V) V {
		x, y := termArg(a[0]), termArg(a[1])
		if x.IsConst() && y.IsConst() {
			return FP64Const(goMod(x.F64(), y.F64()))
		}
		res := FPFromBits(UF("uf_fmod", BVSort(64), in.fpToBits(x), in.fpToBits(y)))
		nan := Or(Or(FPIsNaN(x), FPIsNaN(y)), Or(FPIsInf(x), FPCmp(OpFPEq, y, FP64Const(0))))
		ax, ay := FPAbs(x), FPAbs(y)
		small := Or(FPIsInf(y), FPCmp(OpFPLt, ax, ay))
		sameSign := Eq(Extract(in.fpToBits(res), 63, 63), Extract(in.fpToBits(x), 63, 63))
		general := AndN(Not(FPIsNaN(res)), FPCmp(OpFPLt, FPAbs(res), ay), sameSign)
		in.define(Ite(nan, FPIsNaN(res), Ite(small, Eq(res, x), general)))
		return res
	}
	for _, n := range []string{"Pow", "Atan2", "Hypot"} {
		name := n
		r["math."+name] = func(in *Interp, fr *Frame, a []V) V {
			x, y := termArg(a[0]), termArg(a[1])
			if x.IsConst() && y.IsConst() {
				return FP64Const(goMath2(name, x.F64(), y.F64()))
			}
			return FPFromBits(Extract(UF("uf_math_"+name, BVSort(64), in.fpToBits(x), in.fpToBits(y)), 63, 0))
		}
	}
	for _, n := range []string{"Exp", "Log", "Log2", "Log10", "Sin", "Cos", "Tan", "Asin", "Acos", "Atan", "Sinh", "Cosh", "Tanh", "Exp2", "Log1p", "Expm1", "Cbrt"} {
		name := n
		r["math."+name] = func(in *Interp, fr *Frame, a []V) V {
			x := termArg(a[0])
			if x.IsConst() {
				return FP64Const(goMath1(name, x.F64()))
			}
			return FPFromBits(UF("uf_math_"+name, BVSort(64), in.fpToBits(x)))
		}
	}
	r["math.Modf"] = func(in *Interp, fr *Frame, a []V) V {
		x := termArg(a[0])
		ip := FPRound(x, 3)
		// Go: frac = x - int; for ±Inf returns (±Inf, NaN)
		return TupleV{ip, FP2(OpFPSub, x, ip)}
	}

	// ----- sync / atomic / runtime -----
	for _, n := range []string{
		"(*sync.RWMutex).Lock", "(*sync.RWMutex).Unlock",
		"(*sync.RWMutex).RLock", "(*sync.RWMutex).RUnlock",
		"runtime.SetFinalizer", "runtime.GC", "runtime.KeepAlive", "runtime.Gosched",
		"(*strings.Builder).copyCheck", "internal/race.Enable", "internal/race.Disable",
		"internal/race.Acquire", "internal/race.Release", "internal/race.ReleaseMerge",
		"internal/race.Read", "internal/race.Write", "internal/race.ReadRange", "internal/race.WriteRange",
		"runtime/debug.SetGCPercent", "runtime/debug.FreeOSMemory",
	} {
		if _, ok := r[n]; !ok {
			r[n] = nop
		}
	}
	r["(*sync.Mutex).Lock"] = func(in *Interp, fr *Frame, a []V) V { in.mutexLock(a[0].(Ptr)); return nil }
	r["(*sync.Mutex).Unlock"] = func(in *Interp, fr *Frame, a []V) V { in.mutexUnlock(a[0].(Ptr)); return nil }
	r["(*sync.Mutex).TryLock"] = func(in *Interp, fr *Frame, a []V) V { return TrueT }
	r["(*sync.Once).Do"] = func(in *Interp, fr *Frame, a []V) V {
		p := a[0].(Ptr)
		// Once{done atomic.Uint32 / uint32; m Mutex}
		doneCell := p.C.Kids[0]
		for doneCell.Kids != nil {
			doneCell = doneCell.Kids[len(doneCell.Kids)-1]
		}
		if t := in.readCell(doneCell).(*Term); t.IsConst() && t.Lo != 0 {
			return nil
		}
		in.writeCell(doneCell, BVConst(1, doneCell.V.(*Term).S.W))
		in.call(fr, a[1], nil, nil)
		return nil
	}
	atomicLoad := func(in *Interp, fr *Frame, a []V) V { return in.load(a[0].(Ptr), nil) }
	atomicStore := func(in *Interp, fr *Frame, a []V) V { in.store(a[0].(Ptr), a[1]); return nil }
	atomicAdd := func(in *Interp, fr *Frame, a []V) V {
		p := a[0].(Ptr)
		n := BV2(OpBVAdd, in.load(p, nil).(*Term), termArg(a[1]))
		in.store(p, n)
		return n
	}
	atomicCAS := func(in *Interp, fr *Frame, a []V) V {
		p := a[0].(Ptr)
		old := in.load(p, nil)
		var eq *Term
		switch o := old.(type) {
		case *Term:
			eq = Eq(o, termArg(a[1]))
		case Ptr:
			eq = BoolT(o.C == a[1].(Ptr).C)
		}
		if in.decide(eq) {
			in.store(p, a[2])
			return TrueT
		}
		return FalseT
	}
	atomicSwap := func(in *Interp, fr *Frame, a []V) V {
		p := a[0].(Ptr)
		old := in.load(p, nil)
		in.store(p, a[1])
		return old
	}
	for _, t := range []string{"Int32", "Int64", "Uint32", "Uint64", "Uintptr", "Pointer"} {
		r["sync/atomic.Load"+t] = atomicLoad
		r["sync/atomic.Store"+t] = atomicStore
		r["sync/atomic.Add"+t] = atomicAdd
		r["sync/atomic.CompareAndSwap"+t] = atomicCAS
		r["sync/atomic.Swap"+t] = atomicSwap
	}

	// ----- bytealg & friends (bounded strings; no forking) -----
	strOrBytes := func(in *Interp, v V) []*Term {
		switch x := v.(type) {
		case StrV:
			return x.Terms()
		case SliceV:
			ts := make([]*Term, x.Len)
			for i := range ts {
				ts[i] = in.readCell(x.Arr.Kids[x.Off+i]).(*Term)
			}
			return ts
		}
		panic(fmt.Sprintf("strOrBytes %T", v))
	}
	indexByte := func(in *Interp, fr *Frame, a []V) V {
		s := strOrBytes(in, a[0])
		c := termArg(a[1])
		res := BVConst(^uint64(0), 64)
		for i := len(s) - 1; i >= 0; i-- {
			res = Ite(Eq(s[i], c), BVConst(uint64(i), 64), res)
		}
		return res
	}
	r["internal/bytealg.IndexByte"] = indexByte
	r["internal/bytealg.IndexByteString"] = indexByte
	r["strings.IndexByte"] = indexByte
	r["bytes.IndexByte"] = indexByte
	lastIndexByte := func(in *Interp, fr *Frame, a []V) V {
		s := strOrBytes(in, a[0])
		c := termArg(a[1])
		res := BVConst(^uint64(0), 64)
		for i := 0; i < len(s); i++ {
			res = Ite(Eq(s[i], c), BVConst(uint64(i), 64), res)
		}
		return res
	}
	r["internal/bytealg.LastIndexByteString"] = lastIndexByte
	r["internal/bytealg.LastIndexByte"] = lastIndexByte
	r["strings.LastIndexByte"] = lastIndexByte
	count := func(in *Interp, fr *Frame, a []V) V {
		s := strOrBytes(in, a[0])
		c := termArg(a[1])
		res := BVConst(0, 64)
		for i := range s {
			res = BV2(OpBVAdd, res, Ite(Eq(s[i], c), BVConst(1, 64), BVConst(0, 64)))
		}
		return res
	}
	r["internal/bytealg.Count"] = count
	r["internal/bytealg.CountString"] = count
	eqBytes := func(in *Interp, fr *Frame, a []V) V {
		x, y := strOrBytes(in, a[0]), strOrBytes(in, a[1])
		if len(x) != len(y) {
			return FalseT
		}
		res := TrueT
		for i := range x {
			res = And(res, Eq(x[i], y[i]))
		}
		return res
	}
	r["internal/bytealg.Equal"] = eqBytes
	r["bytes.Equal"] = eqBytes
	cmp := func(in *Interp, fr *Frame, a []V) V {
		x, y := MkStr(strOrBytes(in, a[0])), MkStr(strOrBytes(in, a[1]))
		lt := in.strLess(x, y, false)
		eq := in.strEq(x, y)
		return Ite(eq, BVConst(0, 64), Ite(lt, BVConst(^uint64(0), 64), BVConst(1, 64)))
	}
	r["internal/bytealg.Compare"] = cmp
	r["internal/bytealg.CompareString"] = cmp
	r["bytes.Compare"] = cmp
	r["strings.Compare"] = cmp
	index := func(in *Interp, fr *Frame, a []V) V {
		s, sub := strOrBytes(in, a[0]), strOrBytes(in, a[1])
		res := BVConst(^uint64(0), 64)
		for i := len(s) - len(sub); i >= 0; i-- {
			m := TrueT
			for j := range sub {
				m = And(m, Eq(s[i+j], sub[j]))
			}
			res = Ite(m, BVConst(uint64(i), 64), res)
		}
		return res
	}
	r["internal/bytealg.Index"] = index
	r["internal/bytealg.IndexString"] = index
	r["strings.Index"] = index
	r["bytes.Index"] = index
	r["internal/bytealg.MakeNoZero"] = func(in *Interp, fr *Frame, a []V) V {
		n := in.makeLen(a[0], "len")
		arr := in.newArrayCell(types.Typ[types.Uint8], n, "MakeNoZero")
		return SliceV{Arr: arr, Len: n, Cap: n}
	}
	r["internal/stringslite.Index"] = index
	r["internal/stringslite.IndexByte"] = indexByte

	// os / process effects
	for _, n := range []string{"os.Exit", "syscall.Exit"} {
		r[n] = func(in *Interp, fr *Frame, a []V) V {
			in.effect("os.Exit")
			panic(&goPanic{Msg: "os.Exit", Exit: true})
		}
	}
	r["time.Now"] = func(in *Interp, fr *Frame, a []V) V {
		in.unsupported("time.Now")
		return nil
	}
}

func hasPrefixAny(s string, ps ...string) bool {
	for _, p := range ps {
		if strings.HasPrefix(s, p) {
			return true
		}
	}
	return false
}
