package gosym

import (
	"fmt"
	"go/types"

	"golang.org/x/tools/go/ssa"
)

func (in *Interp) callBuiltin(fr *Frame, b *ssa.Builtin, args []V, site ssa.Instruction) V {
	switch b.Name() {
	case "len":
		return BVConst(uint64(in.lenOf(args[0])), 64)
	case "cap":
		switch x := args[0].(type) {
		case SliceV:
			return BVConst(uint64(x.Cap), 64)
		case ChanV:
			if x.C == nil {
				return BVConst(0, 64)
			}
			return BVConst(uint64(x.C.Cap), 64)
		case ArrayV:
			return BVConst(uint64(len(x)), 64)
		case Ptr:
			return BVConst(uint64(len(x.C.Kids)), 64)
		}
		panic("cap")
	case "append":
		return in.appendOp(args[0].(SliceV), args[1], b.Type().(*types.Signature).Params().At(0).Type())
	case "copy":
		dst := args[0].(SliceV)
		n := dst.Len
		switch src := args[1].(type) {
		case SliceV:
			if src.Len < n {
				n = src.Len
			}
			in.memmove(dst, src, n)
		case StrV:
			if src.Len() < n {
				n = src.Len()
			}
			for i := 0; i < n; i++ {
				in.writeCell(dst.Arr.Kids[dst.Off+i], src.At(i))
			}
		}
		return BVConst(uint64(n), 64)
	case "delete":
		in.mapDelete(args[0].(MapV).M, args[1])
		return nil
	case "panic":
		panic(&goPanic{Val: args[0], Msg: in.panicText(args[0]), Stack: in.stackString()})
	case "recover":
		return in.doRecover(fr)
	case "print", "println":
		return nil
	case "close":
		in.chanClose(args[0].(ChanV))
		return nil
	case "min", "max":
		res := args[0]
		for _, a := range args[1:] {
			res = in.minmax(b.Name() == "min", res, a, b.Type().(*types.Signature).Params().At(0).Type())
		}
		return res
	case "clear":
		switch x := args[0].(type) {
		case MapV:
			if x.M != nil {
				for i := range x.M.Keys {
					if x.M.Live[i] {
						i := i
						x.M.Live[i] = false
						x.M.N--
						in.trailFn(func() { x.M.Live[i] = true; x.M.N++ })
					}
				}
			}
		case SliceV:
			for i := 0; i < x.Len; i++ {
				k := x.Arr.Kids[x.Off+i]
				in.writeCell(k, in.zero(k.T))
			}
		}
		return nil
	case "ssa:wrapnilchk":
		p := args[0].(Ptr)
		if p.C == nil {
			in.goPanicStr("value method called using nil pointer")
		}
		return p
	case "String": // unsafe.String(ptr *byte, len)
		p := args[0].(Ptr)
		n := in.concInt(args[1], "unsafe.String len")
		if n == 0 {
			return StrV{}
		}
		if p.C == nil || p.C.Parent == nil || p.C.Idx+n > len(p.C.Parent.Kids) {
			in.unsupported("unsafe.String on non-array pointer")
		}
		ts := make([]*Term, n)
		for i := 0; i < n; i++ {
			ts[i] = in.readCell(p.C.Parent.Kids[p.C.Idx+i]).(*Term)
		}
		return MkStr(ts)
	case "StringData": // unsafe.StringData(s)
		sv := args[0].(StrV)
		n := sv.Len()
		if n == 0 {
			return Ptr{}
		}
		arr := in.newArrayCell(types.Typ[types.Uint8], n, "StringData")
		for i := 0; i < n; i++ {
			arr.Kids[i].V = sv.At(i)
		}
		return Ptr{C: arr.Kids[0]}
	case "SliceData":
		sl := args[0].(SliceV)
		if sl.Arr == nil || sl.Cap == 0 {
			return Ptr{}
		}
		return Ptr{C: sl.Arr.Kids[sl.Off]}
	case "Slice": // unsafe.Slice(ptr, len)
		p := args[0].(Ptr)
		n := in.concInt(args[1], "unsafe.Slice len")
		if p.C == nil {
			return SliceV{}
		}
		if p.C.Parent == nil || p.C.Idx+n > len(p.C.Parent.Kids) {
			in.unsupported("unsafe.Slice on non-array pointer")
		}
		return SliceV{Arr: p.C.Parent, Off: p.C.Idx, Len: n, Cap: len(p.C.Parent.Kids) - p.C.Idx}
	case "real":
		return args[0].(StructV)[0]
	case "imag":
		return args[0].(StructV)[1]
	case "complex":
		return StructV{args[0], args[1]}
	}
	in.unsupported("builtin %s", b.Name())
	return nil
}

func (in *Interp) minmax(isMin bool, a, b V, t types.Type) V {
	x, y := a.(*Term), b.(*Term)
	if x.S.K == SBV {
		_, signed, _ := intWidth(t)
		var lt *Term
		if signed {
			lt = BVCmp(OpBVSlt, x, y)
		} else {
			lt = BVCmp(OpBVUlt, x, y)
		}
		if isMin {
			return Ite(lt, x, y)
		}
		return Ite(lt, y, x)
	}
	in.unsupported("min/max on floats")
	return nil
}

func (in *Interp) lenOf(v V) int {
	switch x := v.(type) {
	case StrV:
		return x.Len()
	case SliceV:
		return x.Len
	case ArrayV:
		return len(x)
	case MapV:
		if x.M == nil {
			return 0
		}
		return x.M.N
	case ChanV:
		if x.C == nil {
			return 0
		}
		return len(x.C.Buf)
	case Ptr:
		return len(x.C.Kids)
	}
	panic(fmt.Sprintf("len of %T", v))
}

func (in *Interp) memmove(dst, src SliceV, n int) {
	if n == 0 {
		return
	}
	if dst.Arr == src.Arr && dst.Off > src.Off {
		for i := n - 1; i >= 0; i-- {
			in.writeCell(dst.Arr.Kids[dst.Off+i], in.readCell(src.Arr.Kids[src.Off+i]))
		}
		return
	}
	for i := 0; i < n; i++ {
		in.writeCell(dst.Arr.Kids[dst.Off+i], in.readCell(src.Arr.Kids[src.Off+i]))
	}
}

func (in *Interp) appendOp(s SliceV, add V, st types.Type) V {
	var n int
	var get func(i int) V
	switch a := add.(type) {
	case SliceV:
		n = a.Len
		get = func(i int) V { return in.readCell(a.Arr.Kids[a.Off+i]) }
	case StrV:
		n = a.Len()
		get = func(i int) V { return a.At(i) }
	default:
		panic(fmt.Sprintf("append %T", add))
	}
	if n == 0 {
		return s
	}
	// read all first (aliasing)
	vals := make([]V, n)
	for i := range vals {
		vals[i] = get(i)
	}
	if s.Arr != nil && s.Len+n <= s.Cap {
		for i := 0; i < n; i++ {
			in.writeCell(s.Arr.Kids[s.Off+s.Len+i], vals[i])
		}
		return SliceV{Arr: s.Arr, Off: s.Off, Len: s.Len + n, Cap: s.Cap}
	}
	newCap := s.Cap * 2
	if newCap < s.Len+n {
		newCap = s.Len + n
	}
	if newCap < 4 {
		newCap = 4
		if newCap < s.Len+n {
			newCap = s.Len + n
		}
	}
	et := st.Underlying().(*types.Slice).Elem()
	arr := in.newArrayCell(et, newCap, "append")
	for i := 0; i < s.Len; i++ {
		in.writeCell(arr.Kids[i], in.readCell(s.Arr.Kids[s.Off+i]))
	}
	for i := 0; i < n; i++ {
		in.writeCell(arr.Kids[s.Len+i], vals[i])
	}
	return SliceV{Arr: arr, Off: 0, Len: s.Len + n, Cap: newCap}
}

func (in *Interp) doRecover(fr *Frame) V {
	// recover() is effective only when called directly by a deferred function
	// whose caller is panicking.
	if fr != nil && fr.caller != nil && fr.caller.panicking {
		c := fr.caller
		if c.panic != nil && c.panic.Exit {
			return IfaceV{}
		}
		c.panicking = false
		p := c.panic
		c.panic = nil
		if p == nil {
			return IfaceV{}
		}
		if iv, ok := p.Val.(IfaceV); ok {
			return iv
		}
		return IfaceV{T: types.Typ[types.String], V: StrV{S: p.Msg}}
	}
	return IfaceV{}
}
