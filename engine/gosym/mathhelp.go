package gosym

import "math"

func goMod(x, y float64) float64 { return math.Mod(x, y) }

func goMath2(name string, x, y float64) float64 {
	switch name {
	case "Pow":
		return math.Pow(x, y)
	case "Atan2":
		return math.Atan2(x, y)
	case "Hypot":
		return math.Hypot(x, y)
	}
	panic(name)
}

func goMath1(name string, x float64) float64 {
	switch name {
	case "Exp":
		return math.Exp(x)
	case "Log":
		return math.Log(x)
	case "Log2":
		return math.Log2(x)
	case "Log10":
		return math.Log10(x)
	case "Sin":
		return math.Sin(x)
	case "Cos":
		return math.Cos(x)
	case "Tan":
		return math.Tan(x)
	case "Asin":
		return math.Asin(x)
	case "Acos":
		return math.Acos(x)
	case "Atan":
		return math.Atan(x)
	case "Sinh":
		return math.Sinh(x)
	case "Cosh":
		return math.Cosh(x)
	case "Tanh":
		return math.Tanh(x)
	case "Exp2":
		return math.Exp2(x)
	case "Log1p":
		return math.Log1p(x)
	case "Expm1":
		return math.Expm1(x)
	case "Cbrt":
		return math.Cbrt(x)
	}
	panic(name)
}
