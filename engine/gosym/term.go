package gosym

import (
	"fmt"
	"math"
	"math/bits"
	"strings"
)

// Sort of an SMT term.
type SortKind uint8

const (
	SBool SortKind = iota
	SBV
	SFP32
	SFP64
)

type Sort struct {
	K SortKind
	W int // bit width for SBV
}

var (
	BoolSort = Sort{SBool, 0}
	FP64Sort = Sort{SFP64, 0}
	FP32Sort = Sort{SFP32, 0}
)

func BVSort(w int) Sort { return Sort{SBV, w} }

func (s Sort) String() string {
	switch s.K {
	case SBool:
		return "Bool"
	case SBV:
		return fmt.Sprintf("(_ BitVec %d)", s.W)
	case SFP32:
		return "(_ FloatingPoint 8 24)"
	case SFP64:
		return "(_ FloatingPoint 11 53)"
	}
	return "?"
}

type Op uint8

const (
	OpConst Op = iota
	OpVar
	OpNot
	OpAnd
	OpOr
	OpIte
	OpEq
	OpBVAdd
	OpBVSub
	OpBVMul
	OpBVUDiv
	OpBVURem
	OpBVSDiv
	OpBVSRem
	OpBVAnd
	OpBVOr
	OpBVXor
	OpBVNot
	OpBVNeg
	OpBVShl
	OpBVLshr
	OpBVAshr
	OpBVUlt
	OpBVUle
	OpBVSlt
	OpBVSle
	OpConcat
	OpExtract // A=hi B=lo
	OpZext    // A=extra bits
	OpSext    // A=extra bits
	OpFPAdd
	OpFPSub
	OpFPMul
	OpFPDiv
	OpFPNeg
	OpFPAbs
	OpFPLt
	OpFPLe
	OpFPEq
	OpFPIsNaN
	OpFPIsInf
	OpFPRound   // A = rounding mode (0 RNE,1 RTN,2 RTP,3 RTZ)
	OpFPSqrt    //
	OpFPFromSBV // to_fp RNE signed
	OpFPFromUBV
	OpFPFromFP // precision conversion RNE
	OpFPToSBV  // RTZ, A = width
	OpFPToUBV
	OpFPFromBits // reinterpret
	OpFPMin
	OpFPMax
	OpUF // Name = function, args
)

var opNames = map[Op]string{
	OpNot: "not", OpAnd: "and", OpOr: "or", OpIte: "ite", OpEq: "=",
	OpBVAdd: "bvadd", OpBVSub: "bvsub", OpBVMul: "bvmul", OpBVUDiv: "bvudiv", OpBVURem: "bvurem",
	OpBVSDiv: "bvsdiv", OpBVSRem: "bvsrem", OpBVAnd: "bvand", OpBVOr: "bvor", OpBVXor: "bvxor",
	OpBVNot: "bvnot", OpBVNeg: "bvneg", OpBVShl: "bvshl", OpBVLshr: "bvlshr", OpBVAshr: "bvashr",
	OpBVUlt: "bvult", OpBVUle: "bvule", OpBVSlt: "bvslt", OpBVSle: "bvsle", OpConcat: "concat",
	OpFPAdd: "fp.add RNE", OpFPSub: "fp.sub RNE", OpFPMul: "fp.mul RNE", OpFPDiv: "fp.div RNE",
	OpFPNeg: "fp.neg", OpFPAbs: "fp.abs", OpFPLt: "fp.lt", OpFPLe: "fp.leq", OpFPEq: "fp.eq",
	OpFPIsNaN: "fp.isNaN", OpFPIsInf: "fp.isInfinite", OpFPSqrt: "fp.sqrt RNE",
	OpFPMin: "fp.min", OpFPMax: "fp.max",
}

// Term is an SMT term. Constants of width <= 64 keep their value in Lo; wider
// (<=128) constants use Hi too.  FP constants keep their IEEE bits in Lo.
type Term struct {
	Op   Op
	S    Sort
	Args []*Term
	Lo   uint64
	Hi   uint64
	A, B int
	Name string
	key  string // structural key (lazily computed; "" = not yet, "-" = too large)
}

// Key returns a canonical structural string for small terms ("" if too large).
func (t *Term) Key() string {
	if t.key == "-" {
		return ""
	}
	if t.key != "" {
		return t.key
	}
	n := 0
	var sb strings.Builder
	if !t.writeKey(&sb, &n) {
		t.key = "-"
		return ""
	}
	t.key = sb.String()
	return t.key
}

func (t *Term) writeKey(sb *strings.Builder, n *int) bool {
	*n++
	if *n > 40 {
		return false
	}
	switch t.Op {
	case OpConst:
		fmt.Fprintf(sb, "k%d:%d:%x:%x", t.S.K, t.S.W, t.Hi, t.Lo)
		return true
	case OpVar:
		sb.WriteString(t.Name)
		return true
	}
	fmt.Fprintf(sb, "(%d,%d,%d,%s", t.Op, t.A, t.B, t.Name)
	args := t.Args
	if (t.Op == OpEq || t.Op == OpBVAdd || t.Op == OpBVAnd || t.Op == OpBVOr || t.Op == OpBVXor || t.Op == OpAnd || t.Op == OpOr) && len(args) == 2 {
		// commutative: order operands canonically by their own keys when cheap
		k0, k1 := args[0].Key(), args[1].Key()
		if k0 != "" && k1 != "" && k1 < k0 {
			args = []*Term{args[1], args[0]}
		}
	}
	for _, a := range args {
		sb.WriteByte(' ')
		if !a.writeKey(sb, n) {
			return false
		}
	}
	sb.WriteByte(')')
	return true
}

var (
	TrueT  = &Term{Op: OpConst, S: BoolSort, Lo: 1}
	FalseT = &Term{Op: OpConst, S: BoolSort, Lo: 0}
)

func (t *Term) IsConst() bool { return t.Op == OpConst }
func (t *Term) IsTrue() bool  { return t.Op == OpConst && t.S.K == SBool && t.Lo == 1 }
func (t *Term) IsFalse() bool { return t.Op == OpConst && t.S.K == SBool && t.Lo == 0 }

func BoolT(b bool) *Term {
	if b {
		return TrueT
	}
	return FalseT
}

func mask(w int) uint64 {
	if w >= 64 {
		return ^uint64(0)
	}
	return (uint64(1) << uint(w)) - 1
}

func BVConst(v uint64, w int) *Term {
	if w > 64 {
		return &Term{Op: OpConst, S: BVSort(w), Lo: v}
	}
	return &Term{Op: OpConst, S: BVSort(w), Lo: v & mask(w)}
}

func BVConst128(hi, lo uint64, w int) *Term {
	if w <= 64 {
		return BVConst(lo, w)
	}
	return &Term{Op: OpConst, S: BVSort(w), Lo: lo, Hi: hi & mask(w-64)}
}

func FP64Const(f float64) *Term {
	return &Term{Op: OpConst, S: FP64Sort, Lo: math.Float64bits(f)}
}
func FP32Const(f float32) *Term {
	return &Term{Op: OpConst, S: FP32Sort, Lo: uint64(math.Float32bits(f))}
}

func (t *Term) F64() float64 { return math.Float64frombits(t.Lo) }
func (t *Term) F32() float32 { return math.Float32frombits(uint32(t.Lo)) }

func NewVar(name string, s Sort) *Term { return &Term{Op: OpVar, S: s, Name: name} }

// signed value of a <=64-bit const
func (t *Term) SInt() int64 {
	w := t.S.W
	if w >= 64 {
		return int64(t.Lo)
	}
	v := t.Lo
	if v&(1<<uint(w-1)) != 0 {
		v |= ^mask(w)
	}
	return int64(v)
}

func allConst(ts ...*Term) bool {
	for _, t := range ts {
		if t.Op != OpConst {
			return false
		}
	}
	return true
}

func Not(a *Term) *Term {
	if a.Op == OpConst {
		return BoolT(a.Lo == 0)
	}
	if a.Op == OpNot {
		return a.Args[0]
	}
	return &Term{Op: OpNot, S: BoolSort, Args: []*Term{a}}
}

func And(a, b *Term) *Term {
	if a.Op == OpConst {
		if a.Lo == 1 {
			return b
		}
		return FalseT
	}
	if b.Op == OpConst {
		if b.Lo == 1 {
			return a
		}
		return FalseT
	}
	if a == b {
		return a
	}
	return &Term{Op: OpAnd, S: BoolSort, Args: []*Term{a, b}}
}

func Or(a, b *Term) *Term {
	if a.Op == OpConst {
		if a.Lo == 1 {
			return TrueT
		}
		return b
	}
	if b.Op == OpConst {
		if b.Lo == 1 {
			return TrueT
		}
		return a
	}
	if a == b {
		return a
	}
	return &Term{Op: OpOr, S: BoolSort, Args: []*Term{a, b}}
}

func AndN(ts ...*Term) *Term {
	r := TrueT
	for _, t := range ts {
		r = And(r, t)
	}
	return r
}

func Ite(c, a, b *Term) *Term {
	if c.Op == OpConst {
		if c.Lo == 1 {
			return a
		}
		return b
	}
	if a == b {
		return a
	}
	if a.Op == OpConst && b.Op == OpConst && a.S == b.S && a.Lo == b.Lo && a.Hi == b.Hi {
		return a
	}
	if a.S.K == SBool && a.Op == OpConst && b.Op == OpConst {
		if a.Lo == 1 {
			return c
		}
		return Not(c)
	}
	return &Term{Op: OpIte, S: a.S, Args: []*Term{c, a, b}}
}

func sameConst(a, b *Term) bool { return a.Lo == b.Lo && a.Hi == b.Hi }

// Eq is structural SMT equality (for FP: bit-identity up to NaN; use FPEq for ==).
func Eq(a, b *Term) *Term {
	if a.S != b.S {
		panic(fmt.Sprintf("Eq sort mismatch %v %v", a.S, b.S))
	}
	if a == b {
		return TrueT
	}
	if a.Op != OpConst && b.Op != OpConst {
		// structurally identical (small) terms are equal
		if ka := a.Key(); ka != "" && ka == b.Key() {
			return TrueT
		}
	}
	if a.Op == OpConst && b.Op == OpConst {
		if a.S.K == SFP64 || a.S.K == SFP32 {
			an, bn := isNaNConst(a), isNaNConst(b)
			if an || bn {
				return BoolT(an && bn)
			}
		}
		return BoolT(sameConst(a, b))
	}
	if a.S.K == SBool {
		if a.Op == OpConst {
			if a.Lo == 1 {
				return b
			}
			return Not(b)
		}
		if b.Op == OpConst {
			if b.Lo == 1 {
				return a
			}
			return Not(a)
		}
	}
	// (ite c k1 k2) == k  => c / !c / false
	if a.Op == OpIte && b.Op == OpConst && a.Args[1].Op == OpConst && a.Args[2].Op == OpConst && a.S.K == SBV {
		e1 := sameConst(a.Args[1], b)
		e2 := sameConst(a.Args[2], b)
		switch {
		case e1 && e2:
			return TrueT
		case e1:
			return a.Args[0]
		case e2:
			return Not(a.Args[0])
		default:
			return FalseT
		}
	}
	if b.Op == OpIte && a.Op == OpConst {
		return Eq(b, a)
	}
	return &Term{Op: OpEq, S: BoolSort, Args: []*Term{a, b}}
}

func isNaNConst(t *Term) bool {
	if t.S.K == SFP64 {
		return math.IsNaN(t.F64())
	}
	return t.F32() != t.F32()
}

func bvFold2(op Op, a, b *Term) (*Term, bool) {
	w := a.S.W
	if w > 64 || a.Op != OpConst || b.Op != OpConst {
		return nil, false
	}
	x, y := a.Lo, b.Lo
	sx, sy := a.SInt(), b.SInt()
	switch op {
	case OpBVAdd:
		return BVConst(x+y, w), true
	case OpBVSub:
		return BVConst(x-y, w), true
	case OpBVMul:
		return BVConst(x*y, w), true
	case OpBVUDiv:
		if y == 0 {
			return BVConst(^uint64(0), w), true
		}
		return BVConst(x/y, w), true
	case OpBVURem:
		if y == 0 {
			return BVConst(x, w), true
		}
		return BVConst(x%y, w), true
	case OpBVSDiv:
		if sy == 0 {
			if sx >= 0 {
				return BVConst(^uint64(0), w), true
			}
			return BVConst(1, w), true
		}
		if sy == -1 {
			return BVConst(uint64(-sx), w), true
		}
		return BVConst(uint64(sx/sy), w), true
	case OpBVSRem:
		if sy == 0 {
			return BVConst(x, w), true
		}
		if sy == -1 {
			return BVConst(0, w), true
		}
		return BVConst(uint64(sx%sy), w), true
	case OpBVAnd:
		return BVConst(x&y, w), true
	case OpBVOr:
		return BVConst(x|y, w), true
	case OpBVXor:
		return BVConst(x^y, w), true
	case OpBVShl:
		if y >= uint64(w) {
			return BVConst(0, w), true
		}
		return BVConst(x<<y, w), true
	case OpBVLshr:
		if y >= uint64(w) {
			return BVConst(0, w), true
		}
		return BVConst(x>>y, w), true
	case OpBVAshr:
		if y >= uint64(w) {
			if sx < 0 {
				return BVConst(^uint64(0), w), true
			}
			return BVConst(0, w), true
		}
		return BVConst(uint64(sx>>y), w), true
	}
	return nil, false
}

func BV2(op Op, a, b *Term) *Term {
	if a.S != b.S || a.S.K != SBV {
		panic(fmt.Sprintf("BV2 %v sort mismatch %v %v", opNames[op], a.S, b.S))
	}
	if r, ok := bvFold2(op, a, b); ok {
		return r
	}
	w := a.S.W
	// x * c with c "negative": rewrite as -(x * -c); keeps constants small
	// for the integer encodings (cvc5 --solve-bv-as-int).
	if op == OpBVMul {
		if a.Op == OpConst && b.Op != OpConst {
			a, b = b, a
		}
		if b.Op == OpConst && constNegative(b) {
			return BVNeg(BV2(OpBVMul, a, constNeg(b)))
		}
	}
	// light algebraic simplifications
	if w <= 64 {
		switch op {
		case OpBVAdd:
			if a.Op == OpConst && a.Lo == 0 {
				return b
			}
			if b.Op == OpConst && b.Lo == 0 {
				return a
			}
		case OpBVSub:
			if b.Op == OpConst && b.Lo == 0 {
				return a
			}
		case OpBVOr, OpBVXor:
			if a.Op == OpConst && a.Lo == 0 {
				return b
			}
			if b.Op == OpConst && b.Lo == 0 {
				return a
			}
		case OpBVAnd:
			if a.Op == OpConst && a.Lo == 0 || b.Op == OpConst && b.Lo == 0 {
				return BVConst(0, w)
			}
			if a.Op == OpConst && a.Lo == mask(w) {
				return b
			}
			if b.Op == OpConst && b.Lo == mask(w) {
				return a
			}
		case OpBVMul:
			if a.Op == OpConst && a.Lo == 1 {
				return b
			}
			if b.Op == OpConst && b.Lo == 1 {
				return a
			}
			if a.Op == OpConst && a.Lo == 0 || b.Op == OpConst && b.Lo == 0 {
				return BVConst(0, w)
			}
		case OpBVShl, OpBVLshr, OpBVAshr:
			if b.Op == OpConst && b.Lo == 0 {
				return a
			}
		}
	}
	return &Term{Op: op, S: a.S, Args: []*Term{a, b}}
}

func constNegative(c *Term) bool {
	w := c.S.W
	if w <= 64 {
		return w > 1 && c.Lo&(1<<uint(w-1)) != 0 && c.Lo != 1<<uint(w-1)
	}
	return c.Hi&(1<<uint(w-65)) != 0 && !(c.Lo == 0 && c.Hi == 1<<uint(w-65))
}

func constNeg(c *Term) *Term {
	w := c.S.W
	if w <= 64 {
		return BVConst(-c.Lo, w)
	}
	lo := ^c.Lo + 1
	hi := ^c.Hi
	if lo == 0 {
		hi++
	}
	return BVConst128(hi, lo, w)
}

func BVCmp(op Op, a, b *Term) *Term {
	if a.S != b.S || a.S.K != SBV {
		panic(fmt.Sprintf("BVCmp %v sort mismatch %v %v", opNames[op], a.S, b.S))
	}
	if a.Op == OpConst && b.Op == OpConst && a.S.W <= 64 {
		switch op {
		case OpBVUlt:
			return BoolT(a.Lo < b.Lo)
		case OpBVUle:
			return BoolT(a.Lo <= b.Lo)
		case OpBVSlt:
			return BoolT(a.SInt() < b.SInt())
		case OpBVSle:
			return BoolT(a.SInt() <= b.SInt())
		}
	}
	if a == b {
		return BoolT(op == OpBVUle || op == OpBVSle)
	}
	return &Term{Op: op, S: BoolSort, Args: []*Term{a, b}}
}

func BVNot(a *Term) *Term {
	if a.Op == OpConst && a.S.W <= 64 {
		return BVConst(^a.Lo, a.S.W)
	}
	return &Term{Op: OpBVNot, S: a.S, Args: []*Term{a}}
}

func BVNeg(a *Term) *Term {
	if a.Op == OpConst && a.S.W <= 64 {
		return BVConst(-a.Lo, a.S.W)
	}
	return &Term{Op: OpBVNeg, S: a.S, Args: []*Term{a}}
}

func Extract(a *Term, hi, lo int) *Term {
	w := hi - lo + 1
	if lo == 0 && w == a.S.W {
		return a
	}
	if a.Op == OpConst {
		if a.S.W <= 64 {
			return BVConst(a.Lo>>uint(lo), w)
		}
		// 128-bit const
		var v uint64
		if lo >= 64 {
			v = a.Hi >> uint(lo-64)
			if w > 64 {
				panic("extract too wide")
			}
			return BVConst(v, w)
		}
		v = a.Lo >> uint(lo)
		if lo > 0 {
			v |= a.Hi << uint(64-lo)
		}
		if w <= 64 {
			return BVConst(v, w)
		}
		return BVConst128(a.Hi>>uint(lo), v, w)
	}
	// extract of zext/sext within original
	if (a.Op == OpZext || a.Op == OpSext) && hi < a.Args[0].S.W {
		return Extract(a.Args[0], hi, lo)
	}
	if a.Op == OpConcat {
		lw := a.Args[1].S.W
		if hi < lw {
			return Extract(a.Args[1], hi, lo)
		}
		if lo >= lw {
			return Extract(a.Args[0], hi-lw, lo-lw)
		}
	}
	return &Term{Op: OpExtract, S: BVSort(w), Args: []*Term{a}, A: hi, B: lo}
}

func Zext(a *Term, to int) *Term {
	if to == a.S.W {
		return a
	}
	if to < a.S.W {
		return Extract(a, to-1, 0)
	}
	if a.Op == OpConst && a.S.W <= 64 {
		return BVConst128(0, a.Lo, to)
	}
	return &Term{Op: OpZext, S: BVSort(to), Args: []*Term{a}, A: to - a.S.W}
}

func Sext(a *Term, to int) *Term {
	if to == a.S.W {
		return a
	}
	if to < a.S.W {
		return Extract(a, to-1, 0)
	}
	if a.Op == OpConst && a.S.W <= 64 {
		v := uint64(a.SInt())
		var hi uint64
		if a.SInt() < 0 {
			hi = ^uint64(0)
		}
		return BVConst128(hi, v, to)
	}
	return &Term{Op: OpSext, S: BVSort(to), Args: []*Term{a}, A: to - a.S.W}
}

func Concat(hi, lo *Term) *Term {
	w := hi.S.W + lo.S.W
	if hi.Op == OpConst && lo.Op == OpConst && w <= 64 {
		return BVConst(hi.Lo<<uint(lo.S.W)|lo.Lo, w)
	}
	if hi.Op == OpConst && lo.Op == OpConst && w <= 128 && lo.S.W == 64 {
		return BVConst128(hi.Lo, lo.Lo, w)
	}
	// concat(extract(x,h,m+1), extract(x,m,l)) = extract(x,h,l)
	if hi.Op == OpExtract && lo.Op == OpExtract && hi.Args[0] == lo.Args[0] && hi.B == lo.A+1 {
		return Extract(hi.Args[0], hi.A, lo.B)
	}
	return &Term{Op: OpConcat, S: BVSort(w), Args: []*Term{hi, lo}}
}

// ---------- floating point ----------

func fpIs64(t *Term) bool { return t.S.K == SFP64 }

func FP2(op Op, a, b *Term) *Term {
	if a.S != b.S {
		panic("FP2 sort mismatch")
	}
	if a.Op == OpConst && b.Op == OpConst {
		if fpIs64(a) {
			x, y := a.F64(), b.F64()
			switch op {
			case OpFPAdd:
				return FP64Const(x + y)
			case OpFPSub:
				return FP64Const(x - y)
			case OpFPMul:
				return FP64Const(x * y)
			case OpFPDiv:
				return FP64Const(x / y)
			}
		} else {
			x, y := a.F32(), b.F32()
			switch op {
			case OpFPAdd:
				return FP32Const(x + y)
			case OpFPSub:
				return FP32Const(x - y)
			case OpFPMul:
				return FP32Const(x * y)
			case OpFPDiv:
				return FP32Const(x / y)
			}
		}
	}
	return &Term{Op: op, S: a.S, Args: []*Term{a, b}}
}

func FPCmp(op Op, a, b *Term) *Term {
	if a.S != b.S {
		panic("FPCmp sort mismatch")
	}
	if a.Op == OpConst && b.Op == OpConst {
		var x, y float64
		if fpIs64(a) {
			x, y = a.F64(), b.F64()
		} else {
			x, y = float64(a.F32()), float64(b.F32())
		}
		switch op {
		case OpFPLt:
			return BoolT(x < y)
		case OpFPLe:
			return BoolT(x <= y)
		case OpFPEq:
			return BoolT(x == y)
		}
	}
	return &Term{Op: op, S: BoolSort, Args: []*Term{a, b}}
}

func FPNeg(a *Term) *Term {
	if a.Op == OpConst {
		if fpIs64(a) {
			return &Term{Op: OpConst, S: a.S, Lo: a.Lo ^ (1 << 63)}
		}
		return &Term{Op: OpConst, S: a.S, Lo: a.Lo ^ (1 << 31)}
	}
	return &Term{Op: OpFPNeg, S: a.S, Args: []*Term{a}}
}

func FPAbs(a *Term) *Term {
	if a.Op == OpConst {
		if fpIs64(a) {
			return &Term{Op: OpConst, S: a.S, Lo: a.Lo &^ (1 << 63)}
		}
		return &Term{Op: OpConst, S: a.S, Lo: a.Lo &^ (1 << 31)}
	}
	return &Term{Op: OpFPAbs, S: a.S, Args: []*Term{a}}
}

func FPIsNaN(a *Term) *Term {
	if a.Op == OpConst {
		return BoolT(isNaNConst(a))
	}
	return &Term{Op: OpFPIsNaN, S: BoolSort, Args: []*Term{a}}
}

func FPIsInf(a *Term) *Term {
	if a.Op == OpConst {
		if fpIs64(a) {
			return BoolT(math.IsInf(a.F64(), 0))
		}
		return BoolT(math.IsInf(float64(a.F32()), 0))
	}
	return &Term{Op: OpFPIsInf, S: BoolSort, Args: []*Term{a}}
}

// mode: 0 RNE, 1 RTN (floor), 2 RTP (ceil), 3 RTZ (trunc)
func FPRound(a *Term, mode int) *Term {
	if a.Op == OpConst && fpIs64(a) {
		x := a.F64()
		switch mode {
		case 0:
			return FP64Const(math.RoundToEven(x))
		case 1:
			return FP64Const(math.Floor(x))
		case 2:
			return FP64Const(math.Ceil(x))
		case 3:
			return FP64Const(math.Trunc(x))
		}
	}
	return &Term{Op: OpFPRound, S: a.S, Args: []*Term{a}, A: mode}
}

func FPSqrt(a *Term) *Term {
	if a.Op == OpConst && fpIs64(a) {
		return FP64Const(math.Sqrt(a.F64()))
	}
	return &Term{Op: OpFPSqrt, S: a.S, Args: []*Term{a}}
}

// FPFromBV converts an integer bit-vector to float (RNE).
func FPFromBV(a *Term, signed bool, to Sort) *Term {
	if a.Op == OpConst && a.S.W <= 64 {
		if to.K == SFP64 {
			if signed {
				return FP64Const(float64(a.SInt()))
			}
			return FP64Const(float64(a.Lo))
		}
		if signed {
			return FP32Const(float32(a.SInt()))
		}
		return FP32Const(float32(a.Lo))
	}
	op := OpFPFromUBV
	if signed {
		op = OpFPFromSBV
	}
	return &Term{Op: op, S: to, Args: []*Term{a}}
}

func FPFromFP(a *Term, to Sort) *Term {
	if a.S == to {
		return a
	}
	if a.Op == OpConst {
		if to.K == SFP64 {
			return FP64Const(float64(a.F32()))
		}
		return FP32Const(float32(a.F64()))
	}
	return &Term{Op: OpFPFromFP, S: to, Args: []*Term{a}}
}

// FPToBVRaw: fp.to_sbv/to_ubv RTZ; unspecified when out of range (callers guard).
func FPToBVRaw(a *Term, signed bool, w int) *Term {
	op := OpFPToUBV
	if signed {
		op = OpFPToSBV
	}
	return &Term{Op: op, S: BVSort(w), Args: []*Term{a}, A: w}
}

func FPFromBits(a *Term) *Term {
	var s Sort
	switch a.S.W {
	case 64:
		s = FP64Sort
	case 32:
		s = FP32Sort
	default:
		panic("FPFromBits width")
	}
	if a.Op == OpConst {
		return &Term{Op: OpConst, S: s, Lo: a.Lo}
	}
	return &Term{Op: OpFPFromBits, S: s, Args: []*Term{a}}
}

func UF(name string, ret Sort, args ...*Term) *Term {
	return &Term{Op: OpUF, S: ret, Name: name, Args: args}
}

// ---------- printing ----------

func bvLit(hi, lo uint64, w int) string {
	if w%4 == 0 {
		if w <= 64 {
			return fmt.Sprintf("#x%0*x", w/4, lo)
		}
		return fmt.Sprintf("#x%0*x%016x", (w-64)/4, hi, lo)
	}
	var sb strings.Builder
	sb.WriteString("#b")
	for i := w - 1; i >= 0; i-- {
		var bit uint64
		if i >= 64 {
			bit = (hi >> uint(i-64)) & 1
		} else {
			bit = (lo >> uint(i)) & 1
		}
		sb.WriteByte(byte('0' + bit))
	}
	return sb.String()
}

func fpLit(t *Term) string {
	if t.S.K == SFP64 {
		f := t.F64()
		if math.IsNaN(f) {
			return "(_ NaN 11 53)"
		}
		b := t.Lo
		return fmt.Sprintf("(fp #b%b #b%011b #b%052b)", b>>63, (b>>52)&0x7ff, b&((1<<52)-1))
	}
	f := t.F32()
	if f != f {
		return "(_ NaN 8 24)"
	}
	b := t.Lo
	return fmt.Sprintf("(fp #b%b #b%08b #b%023b)", (b>>31)&1, (b>>23)&0xff, b&((1<<23)-1))
}

func fpDims(s Sort) string {
	if s.K == SFP64 {
		return "11 53"
	}
	return "8 24"
}

var rmNames = []string{"RNE", "RTN", "RTP", "RTZ"}

// head returns the SMT text of the operator application given printed args.
func (t *Term) render(args []string) string {
	switch t.Op {
	case OpConst:
		switch t.S.K {
		case SBool:
			if t.Lo == 1 {
				return "true"
			}
			return "false"
		case SBV:
			return bvLit(t.Hi, t.Lo, t.S.W)
		default:
			return fpLit(t)
		}
	case OpVar:
		return t.Name
	case OpExtract:
		return fmt.Sprintf("((_ extract %d %d) %s)", t.A, t.B, args[0])
	case OpZext:
		return fmt.Sprintf("((_ zero_extend %d) %s)", t.A, args[0])
	case OpSext:
		return fmt.Sprintf("((_ sign_extend %d) %s)", t.A, args[0])
	case OpFPRound:
		return fmt.Sprintf("(fp.roundToIntegral %s %s)", rmNames[t.A], args[0])
	case OpFPFromSBV:
		return fmt.Sprintf("((_ to_fp %s) RNE %s)", fpDims(t.S), args[0])
	case OpFPFromUBV:
		return fmt.Sprintf("((_ to_fp_unsigned %s) RNE %s)", fpDims(t.S), args[0])
	case OpFPFromFP:
		return fmt.Sprintf("((_ to_fp %s) RNE %s)", fpDims(t.S), args[0])
	case OpFPToSBV:
		return fmt.Sprintf("((_ fp.to_sbv %d) RTZ %s)", t.A, args[0])
	case OpFPToUBV:
		return fmt.Sprintf("((_ fp.to_ubv %d) RTZ %s)", t.A, args[0])
	case OpFPFromBits:
		return fmt.Sprintf("((_ to_fp %s) %s)", fpDims(t.S), args[0])
	case OpUF:
		if len(args) == 0 {
			return t.Name
		}
		return "(" + t.Name + " " + strings.Join(args, " ") + ")"
	case OpEq:
		return "(= " + args[0] + " " + args[1] + ")"
	}
	n, ok := opNames[t.Op]
	if !ok {
		panic(fmt.Sprintf("render: unknown op %d", t.Op))
	}
	return "(" + n + " " + strings.Join(args, " ") + ")"
}

// String prints the term as a tree (for debugging / samples; may be large).
func (t *Term) String() string {
	var rec func(t *Term, depth int) string
	rec = func(t *Term, depth int) string {
		if depth > 12 {
			return "…"
		}
		args := make([]string, len(t.Args))
		for i, a := range t.Args {
			args[i] = rec(a, depth+1)
		}
		return t.render(args)
	}
	return rec(t, 0)
}

// Vars collects variables and UF names.
func (t *Term) collect(seen map[*Term]bool, vars map[string]*Term, ufs map[string]*Term) {
	if seen[t] {
		return
	}
	seen[t] = true
	switch t.Op {
	case OpVar:
		vars[t.Name] = t
	case OpUF:
		ufs[t.Name] = t
	}
	for _, a := range t.Args {
		a.collect(seen, vars, ufs)
	}
}

var _ = bits.Len64
