package gosym

import (
	"fmt"
	"go/types"
	"sort"
	"strings"

	"golang.org/x/tools/go/ssa"
)

type ExploreOpts struct {
	MaxPaths int
}

func newHarnessRun(name string) *HarnessRun {
	return &HarnessRun{Name: name, Unsupported: map[string]int{}, Reached: map[string]bool{},
		Asserts: map[string]*AssertStat{}, Funcs: map[string]bool{}, PanicsSeen: map[string]int{}}
}

// Snapshot marks the current heap as the base state for all paths.
func (in *Interp) Snapshot() {
	in.trailOn = true
	in.trail = in.trail[:0]
	in.baseCellID = in.cellID
	in.baseFuncIDs = in.funcIDs
}

// Explore runs every feasible path of harness fn (depth-first over decision
// prefixes, re-executing from the snapshot for each path).
func (in *Interp) Explore(fn *ssa.Function, opts ExploreOpts) *HarnessRun {
	h := newHarnessRun(fn.Name())
	in.H = h
	work := []Sib{{}}
	for len(work) > 0 {
		if opts.MaxPaths > 0 && h.Paths >= opts.MaxPaths {
			h.noteInconclusive(fmt.Sprintf("path budget %d exhausted with %d prefixes pending", opts.MaxPaths, len(work)))
			break
		}
		prefix := work[len(work)-1]
		work = work[:len(work)-1]
		in.runPath(fn, prefix.Prefix, prefix.Model)
		work = append(work, in.newSibs...)
	}
	return h
}

func (in *Interp) resetPath(prefix []int) {
	in.allVars = in.allVars[:0]
	in.setModel(nil)
	in.undoTo(0)
	in.cellID = in.baseCellID
	in.funcIDs = in.baseFuncIDs
	in.prefix = prefix
	in.pos = 0
	in.decisions = in.decisions[:0]
	in.pc = in.pc[:0]
	in.newSibs = nil
	in.steps = 0
	in.symSeq = 0
	in.varSeq = 0
	in.nondets = nil
	in.nondetCount = map[string]int{}
	in.concNondets = map[string]uint64{}
	in.fpBits = map[*Term]*Term{}
	in.fpBitsByKey = map[string]*Term{}
	in.depth = 0
	in.curFrame = nil
	in.Effects = nil
	in.work, in.WorkMax, in.workOn = 0, 0, false
	in.allocFatal, in.maxTerms = false, nil
	in.SharedWrites = nil
	in.sched = nil
	in.GoroutinesStarted = 0
	in.lastClock = nil
	in.facts = in.facts[:0]
	in.factMap = map[string]bool{}
	in.dom = map[string]domain{}
	in.entangled = map[string]bool{}
	in.bound, in.boundMemo = nil, nil
	in.domTrail = in.domTrail[:0]
	in.clockN = 0
	in.Solver.PopTo(0)
	in.Solver.Push()
}

func (in *Interp) runPath(fn *ssa.Function, prefix []int, model map[string]ModelValue) {
	h := in.H
	h.Paths++
	in.resetPath(prefix)
	in.setModel(model)
	defer func() {
		r := recover()
		if in.sched != nil {
			if _, ok := r.(*tearDown); ok {
				r = in.sched.abort
			}
			// tear down the remaining simulated goroutines
			in.sched.finish(r)
			if _, ok := r.(*tearDown); ok {
				r = nil
			}
		}
		if r == nil {
			return
		}
		switch e := r.(type) {
		case *pathEnd:
			switch e.Kind {
			case "infeasible":
				h.Infeasible++
			case "budget":
				h.Budget++
				h.noteInconclusive("budget: " + e.Msg)
			case "unwind":
				h.UnwindFail++
				if in.UnwindFailIsViolation {
					in.recordViolation("unwind", "unwind", e.Msg, nil)
				} else {
					h.noteInconclusive("unwind: " + e.Msg)
				}
			case "work":
				in.recordViolation("work", "unmetered-work", e.Msg, nil)
			case "fatal":
				h.PanicsSeen[e.Msg]++
				in.recordViolation("panic", "panic", e.Msg, nil)
			case "unsupported":
				h.Unsupported[e.Msg]++
			case "diverged":
				h.noteInconclusive("diverged: " + e.Msg)
			case "stop":
				h.Stops++
				if len(h.StopMsgs) < 5 {
					h.StopMsgs = append(h.StopMsgs, e.Msg+" "+in.pathSample())
				}
			}
		case *goPanic:
			if e.Exit {
				h.Completed++
				return
			}
			label := "panic"
			h.PanicsSeen[e.Msg]++
			in.recordViolation("panic", label, e.Msg+" @ "+e.Stack, nil)
		default:
			panic(r)
		}
	}()
	in.callSSA(fn, nil, nil, nil)
	if in.sched != nil {
		in.sched.quiesce()
	}
	if in.sched != nil && len(in.sched.races) > 0 {
		for _, msg := range in.sched.races {
			in.recordViolation("race", "data-race", msg, nil)
		}
	}
	h.Completed++
	if len(h.Samples) < 6 {
		h.Samples = append(h.Samples, in.pathSample())
	}
}

func (in *Interp) pathSample() string {
	var parts []string
	for i, c := range in.pc {
		if i >= 6 {
			parts = append(parts, "…")
			break
		}
		s := c.String()
		if len(s) > 160 {
			s = s[:160] + "…"
		}
		parts = append(parts, s)
	}
	ds := make([]int, len(in.decisions))
	for i, d := range in.decisions {
		ds[i] = d & 0xffff
	}
	return fmt.Sprintf("decisions=%v pc=[%s]", ds, strings.Join(parts, " ∧ "))
}

// recordViolation queries a model for the current path (plus extra) and
// stores the violation.
func (in *Interp) recordViolation(kind, label, msg string, extra *Term) *Violation {
	h := in.H
	for _, v := range h.Violations {
		if v.Label == label && v.Kind == kind && kind != "panic" {
			return nil // one witness per label is enough
		}
		if kind == "panic" && v.Kind == "panic" && v.Msg == msg {
			return nil
		}
	}
	v := &Violation{Harness: h.Name, Label: label, Kind: kind, Msg: msg, Path: append([]int{}, in.decisions...)}
	in.Solver.Push()
	if extra != nil {
		in.Solver.Assert(extra)
	}
	r := in.Solver.Check()
	if r == Sat {
		// sizes of unbounded allocations: the native confirmation needs them huge
		for _, mt := range in.maxTerms {
			if mt.S.K != SBV || mt.S.W != 64 {
				continue
			}
			for _, sh := range []uint{45, 40, 34} {
				c := BVCmp(OpBVSle, BVConst(uint64(1)<<sh, 64), mt)
				if in.Solver.CheckWith(c) == Sat {
					in.Solver.Assert(c)
					break
				}
			}
		}
		r = in.Solver.Check()
	}
	if r == Sat && (kind == "work" || in.Solver.MaxInts) {
		// the native confirmation of unmetered work is a run that does not
		// finish: prefer a model with large 64-bit inputs
		for _, nd := range in.nondets {
			if nd.S.K != SBV || nd.S.W != 64 {
				continue
			}
			for _, sh := range []uint{61, 40, 32} {
				c := BVCmp(OpBVSle, BVConst(uint64(1)<<sh, 64), nd)
				in.Solver.Push()
				in.Solver.Assert(c)
				if in.Solver.Check() == Sat {
					// keep (the push stays until the outer Pop... emulate by re-asserting)
					in.Solver.Pop()
					in.Solver.Assert(c)
					break
				}
				in.Solver.Pop()
			}
		}
		r = in.Solver.Check()
	}
	if r == Sat {
		m, err := in.Solver.GetValues(in.nondets)
		if err != nil {
			h.noteInconclusive("model: " + err.Error())
		}
		v.Model = m
	} else if r == Unknown {
		h.noteInconclusive("model query unknown for " + label)
	}
	in.Solver.Pop()
	if r == Unsat {
		return nil
	}
	if v.Model == nil {
		v.Model = map[string]ModelValue{}
	}
	for k, c := range in.concNondets {
		v.Model[k] = ModelValue{Sort: BVSort(64), Lo: c}
	}
	h.Violations = append(h.Violations, v)
	return v
}

func (in *Interp) assertStat(label string) *AssertStat {
	st := in.H.Asserts[label]
	if st == nil {
		st = &AssertStat{}
		in.H.Asserts[label] = st
	}
	return st
}

// checkAssert implements verifAssert / verifAssertKF.
func (in *Interp) checkAssert(c *Term, label string, inKnown *Term, kfID string) {
	st := in.assertStat(label)
	if c.IsTrue() {
		st.Trivial++
		return
	}
	neg := Not(c)
	active := kfID != "" && in.KnownIDs[kfID]
	if active && inKnown != nil {
		// violation outside the known region?
		out := And(neg, Not(inKnown))
		switch in.Solver.CheckWith(out) {
		case Sat:
			st.Failed++
			in.recordViolation("assert", label, "assertion "+label+" fails outside known region "+kfID, out)
		case Unknown:
			in.H.noteInconclusive("assert " + label + ": solver unknown: " + in.Solver.LastErr)
		default:
			st.Checked++
		}
		inside := And(neg, inKnown)
		if !in.knownHit(kfID) {
			if in.Solver.CheckWith(inside) == Sat {
				v := in.recordViolation("known", label+"@"+kfID, "known finding "+kfID, inside)
				if v != nil {
					v.KnownID = kfID
					// move from Violations to Known
					in.H.Violations = in.H.Violations[:len(in.H.Violations)-1]
					in.H.Known = append(in.H.Known, v)
				}
			}
		}
	} else {
		switch in.Solver.CheckWith(neg) {
		case Sat:
			st.Failed++
			in.recordViolation("assert", label, "assertion "+label+" fails", neg)
		case Unknown:
			in.H.noteInconclusive("assert " + label + ": solver unknown: " + in.Solver.LastErr)
		default:
			st.Checked++
		}
	}
	// continue under the assumption that the assertion holds
	if c.IsFalse() {
		panic(&pathEnd{Kind: "stop", Msg: "assert false"})
	}
	if in.Solver.CheckWith(c) == Unsat {
		panic(&pathEnd{Kind: "stop", Msg: "assertion always fails here"})
	}
	in.assume(c)
}

func (in *Interp) concAssert(c *Term, label string) {
	if !c.IsConst() {
		panic(&pathEnd{Kind: "unsupported", Msg: "symbolic assertion in concrete mode"})
	}
	if c.IsFalse() {
		in.concFailures = append(in.concFailures, label)
	}
}

func (in *Interp) knownHit(id string) bool {
	for _, k := range in.H.Known {
		if k.KnownID == id {
			return true
		}
	}
	return false
}

func (in *Interp) doAssume(c *Term) {
	if c.IsTrue() {
		return
	}
	if c.IsFalse() {
		panic(&pathEnd{Kind: "infeasible", Msg: "assume(false)"})
	}
	switch in.Solver.CheckWith(c) {
	case Unsat:
		panic(&pathEnd{Kind: "infeasible", Msg: "assume unsat"})
	case Unknown:
		in.H.noteInconclusive("assume: solver unknown: " + in.Solver.LastErr)
	}
	in.assume(c)
}

// ---------- nondet ----------

func (in *Interp) nondetName(base string) string {
	in.nondetCount[base]++
	n := in.nondetCount[base]
	name := sanitize(base)
	if n > 1 {
		name = fmt.Sprintf("%s__%d", name, n)
	}
	return name
}

func sanitize(s string) string {
	var sb strings.Builder
	for _, r := range s {
		if r >= 'a' && r <= 'z' || r >= 'A' && r <= 'Z' || r >= '0' && r <= '9' || r == '_' {
			sb.WriteRune(r)
		} else {
			sb.WriteByte('_')
		}
	}
	if sb.Len() == 0 {
		return "v"
	}
	return "nd_" + sb.String()
}

func (in *Interp) newNondet(base string, w int) *Term {
	if in.concreteGen != nil {
		name := in.nondetName(base)
		val := in.concreteGen(name, w) & mask(w)
		in.concreteAssign[name] = fmt.Sprintf("%#x", val)
		return BVConst(val, w)
	}
	v := NewVar(in.nondetName(base), BVSort(w))
	in.nondets = append(in.nondets, v)
	in.allVars = append(in.allVars, v)
	return v
}

func labelArg(v V) string {
	b := []byte(strArg(v))
	for i, c := range b {
		if c == '|' || c == ',' || c == '\n' {
			b[i] = '_'
		}
	}
	return string(b)
}

func strArg(v V) string {
	s := v.(StrV)
	return s.Go()
}

func registerHarnessIntrinsics(in *Interp, pkgPath string) {
	p := pkgPath + "."
	pure := map[string]bool{"verifTier": true, "verifB2I": true, "verifSymbolic": true, "verifMulFitsInt64": true,
		"verifMulFitsUint64": true, "verifAddFitsUint64": true, "verifMulAddEqInt64": true}
	reg := func(name string, f Intrinsic) {
		if pure[name] {
			in.intr[p+name] = f
			return
		}
		in.intr[p+name] = func(in *Interp, fr *Frame, a []V) V {
			in.specAbortIf("harness intrinsic in region")
			return f(in, fr, a)
		}
	}
	bv := func(w int) Intrinsic {
		return func(in *Interp, fr *Frame, a []V) V { return in.newNondet(strArg(a[0]), w) }
	}
	reg("nondetInt64", bv(64))
	reg("nondetUint64", bv(64))
	reg("nondetInt", bv(64))
	reg("nondetInt32", bv(32))
	reg("nondetUint32", bv(32))
	reg("nondetInt16", bv(16))
	reg("nondetUint16", bv(16))
	reg("nondetByte", bv(8))
	reg("nondetInt8", bv(8))
	reg("nondetBool", func(in *Interp, fr *Frame, a []V) V {
		v := in.newNondet(strArg(a[0]), 8)
		return Not(Eq(v, BVConst(0, 8)))
	})
	reg("nondetFloat64", func(in *Interp, fr *Frame, a []V) V {
		return FPFromBits(in.newNondet(strArg(a[0]), 64))
	})
	reg("nondetFloat32", func(in *Interp, fr *Frame, a []V) V {
		return FPFromBits(in.newNondet(strArg(a[0]), 32))
	})
	reg("nondetString", func(in *Interp, fr *Frame, a []V) V {
		n := in.concInt(a[1], "nondetString length")
		base := strArg(a[0])
		ts := make([]*Term, n)
		for i := range ts {
			ts[i] = in.newNondet(fmt.Sprintf("%s_%d", base, i), 8)
		}
		return StrV{Sym: ts}
	})
	reg("nondetBytes", func(in *Interp, fr *Frame, a []V) V {
		n := in.concInt(a[1], "nondetBytes length")
		base := strArg(a[0])
		arr := in.newArrayCell(types.Typ[types.Uint8], n, "nondetBytes")
		for i := 0; i < n; i++ {
			arr.Kids[i].V = in.newNondet(fmt.Sprintf("%s_%d", base, i), 8)
		}
		return SliceV{Arr: arr, Len: n, Cap: n}
	})
	reg("verifChoose", func(in *Interp, fr *Frame, a []V) V {
		n := in.concInt(a[1], "verifChoose n")
		if in.concreteGen != nil {
			name := in.nondetName(strArg(a[0]))
			d := int(in.concreteGen(name, 64) % uint64(n))
			in.concreteAssign[name] = fmt.Sprintf("%#x", d)
			return BVConst(uint64(d), 64)
		}
		d := in.choose(n)
		in.concNondets[in.nondetName(strArg(a[0]))] = uint64(d)
		return BVConst(uint64(d), 64)
	})
	reg("verifAssume", func(in *Interp, fr *Frame, a []V) V {
		in.doAssume(a[0].(*Term))
		return nil
	})
	reg("verifAssert", func(in *Interp, fr *Frame, a []V) V {
		if in.concreteGen != nil {
			in.concAssert(a[0].(*Term), labelArg(a[1]))
			return nil
		}
		in.checkAssert(a[0].(*Term), labelArg(a[1]), nil, "")
		return nil
	})
	reg("verifAssertKF", func(in *Interp, fr *Frame, a []V) V {
		if in.concreteGen != nil {
			in.concAssert(a[0].(*Term), labelArg(a[1]))
			return nil
		}
		in.checkAssert(a[0].(*Term), labelArg(a[1]), a[2].(*Term), strArg(a[3]))
		return nil
	})
	reg("verifReach", func(in *Interp, fr *Frame, a []V) V {
		if in.concreteGen != nil {
			in.concReached = append(in.concReached, labelArg(a[0]))
			return nil
		}
		in.H.Reached[labelArg(a[0])] = true
		return nil
	})
	reg("verifTier", func(in *Interp, fr *Frame, a []V) V { return BVConst(uint64(in.TierN), 64) })
	reg("verifB2I", func(in *Interp, fr *Frame, a []V) V {
		return Ite(a[0].(*Term), BVConst(1, 64), BVConst(0, 64))
	})
	reg("verifSymbolic", func(in *Interp, fr *Frame, a []V) V { return BoolT(in.concreteGen == nil) })
	// 128-bit helpers for specs
	reg("verifMulFitsInt64", func(in *Interp, fr *Frame, a []V) V {
		x, y := Sext(a[0].(*Term), 128), Sext(a[1].(*Term), 128)
		p := BV2(OpBVMul, x, y)
		return Eq(p, Sext(Extract(p, 63, 0), 128))
	})
	reg("verifMulAddEqInt64", func(in *Interp, fr *Frame, a []V) V {
		q, b, r, x := Sext(a[0].(*Term), 128), Sext(a[1].(*Term), 128), Sext(a[2].(*Term), 128), Sext(a[3].(*Term), 128)
		return Eq(BV2(OpBVAdd, BV2(OpBVMul, q, b), r), x)
	})
	reg("verifMulFitsUint64", func(in *Interp, fr *Frame, a []V) V {
		x, y := Zext(a[0].(*Term), 128), Zext(a[1].(*Term), 128)
		p := BV2(OpBVMul, x, y)
		return Eq(Extract(p, 127, 64), BVConst(0, 64))
	})
	reg("verifAddFitsUint64", func(in *Interp, fr *Frame, a []V) V {
		x, y := Zext(a[0].(*Term), 65), Zext(a[1].(*Term), 65)
		s := BV2(OpBVAdd, x, y)
		return Eq(Extract(s, 64, 64), BVConst(0, 1))
	})
	reg("verifSharedState", func(in *Interp, fr *Frame, a []V) V {
		n := len(in.SharedWrites)
		for _, e := range in.Effects {
			if strings.HasPrefix(e, "global:") {
				n++
			}
		}
		if n > 0 && in.H != nil && len(in.H.Samples) < 12 {
			msg := "shared state: "
			for _, w := range in.SharedWrites {
				msg += w + "; "
			}
			for _, e := range in.Effects {
				if strings.HasPrefix(e, "global:") {
					msg += e + "; "
				}
			}
			in.H.Samples = append(in.H.Samples, msg)
		}
		return BVConst(uint64(n), 64)
	})
	reg("verifEnableRaceDetector", func(in *Interp, fr *Frame, a []V) V {
		in.ensureSched().raceOn = true
		return nil
	})
	reg("verifLiveGoroutines", func(in *Interp, fr *Frame, a []V) V {
		if in.sched == nil {
			return BVConst(0, 64)
		}
		in.sched.quiesce()
		return BVConst(uint64(in.sched.live()), 64)
	})
	reg("verifAllocFatal", func(in *Interp, fr *Frame, a []V) V {
		in.allocFatal = true
		return nil
	})
	reg("verifWorkReset", func(in *Interp, fr *Frame, a []V) V {
		in.work, in.WorkMax = 0, 0
		in.workOn = in.WorkBound > 0
		return nil
	})
	reg("verifWorkMax", func(in *Interp, fr *Frame, a []V) V {
		w := in.WorkMax
		if in.work > w {
			w = in.work
		}
		return BVConst(uint64(w), 64)
	})
	reg("verifEffects", func(in *Interp, fr *Frame, a []V) V {
		// OS-facing effects only (file system, processes, network, exit);
		// process-wide library state ("global:") is verifSharedState's subject
		n := 0
		for _, e := range in.Effects {
			if strings.HasPrefix(e, "os:") || e == "os.Exit" {
				n++
			}
		}
		return BVConst(uint64(n), 64)
	})
}

func (h *HarnessRun) Summary() string {
	var sb strings.Builder
	fmt.Fprintf(&sb, "%s: paths=%d completed=%d infeasible=%d budget=%d unwind=%d decisions=%d violations=%d known=%d",
		h.Name, h.Paths, h.Completed, h.Infeasible, h.Budget, h.UnwindFail, h.Decisions, len(h.Violations), len(h.Known))
	if h.Stops > 0 {
		fmt.Fprintf(&sb, " stops=%d %v", h.Stops, h.StopMsgs)
	}
	if len(h.Unsupported) > 0 {
		var ks []string
		for k, n := range h.Unsupported {
			ks = append(ks, fmt.Sprintf("%s×%d", k, n))
		}
		sort.Strings(ks)
		fmt.Fprintf(&sb, " UNSUPPORTED[%s]", strings.Join(ks, "; "))
	}
	if len(h.Inconclusive) > 0 {
		fmt.Fprintf(&sb, " INCONCLUSIVE[%s]", strings.Join(h.Inconclusive, "; "))
	}
	return sb.String()
}
