package gosym

import (
	"fmt"
	"go/token"
	"go/types"
	"os"
	"sort"
	"strings"

	"golang.org/x/tools/go/ssa"
)

// pathEnd is thrown (as a host panic) to abandon the current path.  It is
// never visible to the simulated program.
type pathEnd struct {
	Kind string // "infeasible", "budget", "unsupported", "stop", "unwind"
	Msg  string
}

// goPanic is a simulated Go panic.
type goPanic struct {
	Val   V
	Msg   string // rendered text (best effort)
	Stack string
	Exit  bool // runtime.Goexit / os.Exit pseudo-panics
}

// Sib is an unexplored sibling path: a decision prefix plus (optionally) a
// solver model witnessing the path condition at its last decision.
type Sib struct {
	Prefix []int
	Model  map[string]ModelValue
}

type deferred struct {
	fn   V
	args []V
	site ssa.Instruction
}

type Frame struct {
	fn        *ssa.Function
	info      *funcInfo
	regs      []V
	block     *ssa.BasicBlock
	prev      *ssa.BasicBlock
	defers    []deferred
	panicking bool
	panic     *goPanic
	result    V
	caller    *Frame
	visits    map[*ssa.BasicBlock]int
	skipPhis  bool
}

type funcInfo struct {
	idx       map[ssa.Value]int
	n         int
	meterTick bool // a runtimeContextManager.Require* method
}

type Intrinsic func(in *Interp, fr *Frame, args []V) V

// Interp is one worker: it owns a heap, a solver and explores paths of one
// harness at a time.
type Interp struct {
	Prog   *ssa.Program
	Fset   *token.FileSet
	Solver *Solver

	cellID  int
	globals map[*ssa.Global]*Cell
	finfo   map[*ssa.Function]*funcInfo
	consts  map[*ssa.Const]V
	intr    map[string]Intrinsic
	initDone map[*ssa.Package]bool
	AllowInit func(pkgPath string) bool

	trail   []trailEnt
	trailOn bool

	// path state
	prefix    []int
	pos       int
	decisions []int
	forced    []bool
	pc        []*Term // path condition (for reporting)
	newSibs   []Sib
	steps     int64
	MaxSteps  int64
	MaxDecisions int
	MaxLoop   int // per-frame visits of one block while a symbolic decision happened in between
	symSeq    int // bumps at each symbolic decision
	varSeq    int
	nondets   []*Term
	nondetNames map[string]bool
	fpBits    map[*Term]*Term // fp term -> bits var
	fpBitsByKey map[string]*Term
	depth     int
	MaxDepth  int
	curFrame  *Frame

	// per-harness results
	H *HarnessRun

	// goroutines
	sched *scheduler

	// effect recording
	Effects []string
	Trace   bool
	typeIDs map[string]uint64
	implCache map[[2]types.Type]bool

	funcIDs int
	baseCellID  int
	baseFuncIDs int
	globalIDs   int
	nondetCount map[string]int
	concNondets map[string]uint64
	KnownIDs    map[string]bool
	AllocBound  int
	WorkBound   int // >0: bound on back edges executed between two metering calls
	work        int
	allocFatal  bool    // verifAllocFatal(): allocation events end the path as an unrecoverable crash
	maxTerms    []*Term // terms a counterexample model should make large (sizes of unbounded allocations)
	workOn      bool // verifWorkReset() was called on this path
	loopHint    int  // +1: the true side of the branch being decided stays in its loop, -1: the false side
	stays       map[*ssa.BasicBlock][2]bool
	WorkMax     int
	AllocEventIsPanic bool
	MapOrderReverse   bool
	TierN       int
	concreteGen    func(name string, w int) uint64
	concreteAssign map[string]string
	concFailures   []string
	concReached    []string
	lastClock      *Term
	lastCallee     *ssa.Function
	facts          []factEnt
	dom            map[string]domain
	entangled      map[string]bool
	bound          map[string]ModelValue // variables the path condition fixes
	boundMemo      map[*Term]*Term
	DomSplit       int
	domTrail       []domTrailEnt
	soleMemo       map[*Term]soleInfo
	NoDomains      bool
	DomForced      int
	model          map[string]ModelValue
	evalMemo       map[*Term]*Term
	allVars        []*Term
	NoModelGuide   bool
	GoroutinesStarted int
	SharedWrites   []string
	InitNotes      []string
	HashUF         bool
	factMap        map[string]bool
	// speculation (merge.go)
	spec         int
	specBase     int
	specDefs     []*Term
	pdoms        map[*ssa.Function]*postDom
	mergeStatic  map[*ssa.If]bool
	fnHash       map[*ssa.Function]int
	NoMerge      bool
	Merges       int
	SpecMaxSteps int64
	clockN         int
	Opaque  map[int]interface{} // handles for opaque host objects
	UnwindFailIsViolation bool
}

// HarnessRun collects the outcome of exploring one harness.
type HarnessRun struct {
	Name        string
	Paths       int
	Decisions   int
	Completed   int
	Infeasible  int
	Unsupported map[string]int
	Budget      int
	UnwindFail  int
	Violations  []*Violation
	Known       []*Violation
	Reached     map[string]bool
	Asserts     map[string]*AssertStat
	Inconclusive []string
	Funcs       map[string]bool
	Samples     []string
	PanicsSeen  map[string]int
	Stops       int
	StopMsgs    []string
}

type AssertStat struct {
	Checked int // solver queries discharged unsat
	Trivial int // folded to true concretely
	Failed  int
}

type Violation struct {
	Harness string
	Label   string
	Kind    string // "assert", "panic", "unwind"
	Msg     string
	Model   map[string]ModelValue
	Path    []int
	KnownID string
}

func NewInterp(prog *ssa.Program, solver *Solver) *Interp {
	in := &Interp{
		Prog: prog, Fset: prog.Fset, Solver: solver,
		globals:  map[*ssa.Global]*Cell{},
		finfo:    map[*ssa.Function]*funcInfo{},
		consts:   map[*ssa.Const]V{},
		intr:     map[string]Intrinsic{},
		initDone: map[*ssa.Package]bool{},
		MaxSteps: 20_000_000, MaxDecisions: 400, MaxDepth: 2000, MaxLoop: 64,
		typeIDs:   map[string]uint64{},
		pdoms:     map[*ssa.Function]*postDom{},
		mergeStatic: map[*ssa.If]bool{},
		fnHash:      map[*ssa.Function]int{},
		SpecMaxSteps: 50000,
		implCache: map[[2]types.Type]bool{},
		Opaque:    map[int]interface{}{},
	}
	registerIntrinsics(in)
	registerIntrinsics2(in)
	return in
}

func (in *Interp) curG() int {
	if in.sched == nil {
		return 0
	}
	return in.sched.cur
}

func (in *Interp) noteAccess(c *Cell, write bool) {
	if in.sched != nil && in.sched.raceOn {
		in.sched.note(in, c, write)
	}
}

func (in *Interp) pos2str(p token.Pos) string {
	if !p.IsValid() {
		return "?"
	}
	ps := in.Fset.Position(p)
	f := ps.Filename
	if i := strings.LastIndex(f, "/"); i >= 0 {
		if j := strings.LastIndex(f[:i], "/"); j >= 0 {
			f = f[j+1:]
		}
	}
	return fmt.Sprintf("%s:%d", f, ps.Line)
}

func (in *Interp) unsupported(format string, a ...interface{}) {
	msg := fmt.Sprintf(format, a...)
	if in.curFrame != nil {
		msg += " in " + in.curFrame.fn.String()
	}
	if os.Getenv("GOSYM_DEBUG") != "" {
		msg += " STACK: " + in.stackString()
	}
	panic(&pathEnd{Kind: "unsupported", Msg: msg})
}

func (in *Interp) stackString() string {
	var sb strings.Builder
	n := 0
	for fr := in.curFrame; fr != nil && n < 12; fr = fr.caller {
		sb.WriteString(fr.fn.String())
		sb.WriteString(" < ")
		n++
	}
	return sb.String()
}

func (in *Interp) goPanicStr(msg string) {
	panic(&goPanic{Val: IfaceV{T: types.Typ[types.String], V: StrV{S: msg}}, Msg: "runtime error: " + msg, Stack: in.stackString()})
}

// ---------- globals / init ----------

func (in *Interp) globalCell(g *ssa.Global) *Cell {
	c, ok := in.globals[g]
	if !ok {
		saved := in.cellID
		in.cellID = 1<<40 + in.globalIDs
		c = in.newCell(g.Type().(*types.Pointer).Elem(), "global "+g.String())
		in.globalIDs = in.cellID - 1<<40
		in.cellID = saved
		in.globals[g] = c
	}
	return c
}

// RunInit runs the package initialiser of pkg (and, transitively, of the
// imported packages accepted by AllowInit).
func (in *Interp) RunInit(pkg *ssa.Package) {
	if in.initDone[pkg] {
		return
	}
	in.initDone[pkg] = true
	f := pkg.Func("init")
	if f == nil {
		return
	}
	in.callSSA(f, nil, nil, nil)
}

// ---------- function info ----------

func (in *Interp) info(fn *ssa.Function) *funcInfo {
	fi, ok := in.finfo[fn]
	if ok {
		return fi
	}
	fi = &funcInfo{idx: map[ssa.Value]int{}}
	if rv := fn.Signature.Recv(); rv != nil && strings.HasSuffix(rv.Type().String(), "runtime.runtimeContextManager") {
		switch fn.Name() {
		case "RequireCPU", "RequireMem", "RequireBytes", "RequireSize", "RequireArrSize", "LinearRequire":
			fi.meterTick = true
		}
	}
	for _, p := range fn.Params {
		fi.idx[p] = fi.n
		fi.n++
	}
	for _, p := range fn.FreeVars {
		fi.idx[p] = fi.n
		fi.n++
	}
	for _, b := range fn.Blocks {
		for _, ins := range b.Instrs {
			if v, ok := ins.(ssa.Value); ok {
				fi.idx[v] = fi.n
				fi.n++
			}
		}
	}
	in.finfo[fn] = fi
	return fi
}

func (in *Interp) get(fr *Frame, v ssa.Value) V {
	switch x := v.(type) {
	case *ssa.Const:
		return in.constV(x)
	case *ssa.Global:
		return Ptr{C: in.globalCell(x)}
	case *ssa.Function:
		return FuncV{Fn: x}
	case *ssa.Builtin:
		return FuncV{Builtin: x}
	case nil:
		return nil
	}
	i, ok := fr.info.idx[v]
	if !ok {
		panic(fmt.Sprintf("get: no register for %T %v in %s", v, v.Name(), fr.fn))
	}
	return fr.regs[i]
}

func (in *Interp) set(fr *Frame, v ssa.Value, val V) {
	fr.regs[fr.info.idx[v]] = val
}

// ---------- decisions ----------

func (in *Interp) freshVar(prefix string, s Sort) *Term {
	in.varSeq++
	v := NewVar(fmt.Sprintf("%s!%d", prefix, in.varSeq), s)
	in.allVars = append(in.allVars, v)
	return v
}

// checkModel is CheckWith that also fetches a model on sat.
func (in *Interp) checkModel(extra *Term) (Result, map[string]ModelValue) {
	if extra.IsFalse() {
		return Unsat, nil
	}
	if in.NoModelGuide {
		return in.Solver.CheckWith(extra), nil
	}
	in.Solver.Push()
	in.Solver.Assert(extra)
	r := in.Solver.Check()
	var m map[string]ModelValue
	if r == Sat {
		mm, err := in.Solver.GetValues(in.allVars)
		if err == nil {
			m = mm
		}
	}
	in.Solver.Pop()
	return r, m
}

// assume adds a constraint to the path condition without forking.
func (in *Interp) assume(c *Term) {
	if c.IsTrue() {
		return
	}
	in.pc = append(in.pc, c)
	in.Solver.Assert(c)
	in.learn(c, true)
	if !in.NoDomains {
		in.domRestrict(c)
		if in.soleVar(c).kind == 2 {
			// the constraint ties several variables together: their byte
			// domains are no longer exact
			vars, ufs := map[string]*Term{}, map[string]*Term{}
			c.collect(map[*Term]bool{}, vars, ufs)
			for name, v := range vars {
				if smallVar(v) {
					in.entangled[name] = true
				}
			}
		}
	}
	if in.model != nil {
		if v, ok := in.evalBool(c); !ok || !v {
			in.setModel(nil)
		}
	}
}

// learn records atomic facts implied by an assumed condition so that later
// decisions on structurally identical conditions need no solver query.
func (in *Interp) learn(c *Term, val bool) {
	switch {
	case c.Op == OpNot:
		in.learn(c.Args[0], !val)
		return
	case c.Op == OpAnd && val, c.Op == OpOr && !val:
		in.learn(c.Args[0], val)
		in.learn(c.Args[1], val)
		return
	}
	if k := c.Key(); k != "" {
		in.facts = append(in.facts, factEnt{k, val})
		in.factMap[k] = val
	}
}

type factEnt struct {
	k string
	v bool
}

// known reports a truth value already implied syntactically by the path.
func (in *Interp) known(c *Term) (bool, bool) {
	if c.Op == OpNot {
		v, ok := in.known(c.Args[0])
		return !v, ok
	}
	if k := c.Key(); k != "" {
		v, ok := in.factMap[k]
		return v, ok
	}
	return false, false
}

// define adds a definitional constraint (about a fresh variable; holds on
// every path).  Inside a speculated region it is remembered and re-asserted
// after the merge.
func (in *Interp) define(c *Term) {
	if in.spec > 0 {
		in.specDefs = append(in.specDefs, c)
	}
	in.assume(c)
}

// decide returns the truth value of cond on this path, forking when both
// outcomes are feasible.
func (in *Interp) decide(cond *Term) bool {
	if cond.Op == OpConst {
		return cond.Lo == 1
	}
	if in.concreteGen != nil {
		panic(&pathEnd{Kind: "unsupported", Msg: "symbolic branch in concrete mode"})
	}
	if v, ok := in.known(cond); ok {
		return v
	}
	if r := in.evalBound(cond); r != nil && r.S.K == SBool {
		return r.Lo == 1
	}
	if v, forced := in.domForced(cond); forced {
		in.DomForced++
		in.learn(cond, v)
		return v
	}
	if in.spec > 0 {
		if v, ok := in.evalBool(cond); ok {
			other := cond
			if v {
				other = Not(cond)
			}
			if in.Solver.CheckWith(other) == Unsat {
				if v {
					in.assume(cond)
				} else {
					in.assume(Not(cond))
				}
				return v
			}
			panic(&specAbort{"fork in region"})
		}
		if in.Solver.CheckWith(cond) == Unsat {
			in.assume(Not(cond))
			return false
		}
		if in.Solver.CheckWith(Not(cond)) == Unsat {
			in.assume(cond)
			return true
		}
		panic(&specAbort{"fork in region"})
	}
	in.symSeq++
	if os.Getenv("GOSYM_DECLOG") != "" {
		fmt.Fprintf(os.Stderr, "decide at %s: %s\n", in.where(), trunc160(cond.String()))
	}
	var d int
	site := in.siteHash()
	if in.pos < len(in.prefix) {
		e := in.prefix[in.pos]
		if e>>16 != site {
			panic(&pathEnd{Kind: "diverged", Msg: "re-execution reached a different decision point than recorded (at " + in.where() + ")"})
		}
		d = e & 0xffff
		in.pos++
		in.decisions = append(in.decisions, e)
	} else {
		if len(in.decisions) >= in.MaxDecisions {
			panic(&pathEnd{Kind: "budget", Msg: "decision budget"})
		}
		addSib := func(dd int, m map[string]ModelValue) {
			sib := append(append([]int{}, in.decisions...), dd|site<<16)
			in.newSibs = append(in.newSibs, Sib{Prefix: sib, Model: m})
		}
		if sv, tD, fD, okD := in.domSplit(cond); okD && !in.NoDomains && !in.entangled[sv.Name] && !tD.empty() && !fD.empty() {
			// the condition speaks about one byte whose domain is exact (no
			// other constraint mentions the byte): both sides are feasible
			in.DomSplit++
			d = 1
			if in.loopHint < 0 {
				d = 0
			}
			addSib(1-d, nil)
			if v, ok := in.evalBool(cond); !ok || v != (d == 1) {
				in.setModel(nil)
			}
		} else if v, ok := in.evalBool(cond); ok {
			// the witness model satisfies side v: only the other side needs a query
			other := cond
			if v {
				other = Not(cond)
			}
			r, m := in.checkModel(other)
			if r == Unknown {
				in.H.noteInconclusive("feasibility unknown at " + in.where() + ": " + in.Solver.LastErr)
			}
			d = 0
			if v {
				d = 1
			}
			if r != Unsat {
				if (in.loopHint > 0 && d == 0) || (in.loopHint < 0 && d == 1) {
					// both sides feasible: follow the side that stays in the loop
					// first (a runaway loop is then found by one path)
					addSib(d, in.model)
					d = 1 - d
					in.setModel(m)
				} else {
					addSib(1-d, m)
				}
			}
		} else {
			rT, mT := in.checkModel(cond)
			var rF Result
			var mF map[string]ModelValue
			if rT == Unsat {
				rF = Sat // pc is satisfiable, so the other side must be
			} else {
				rF, mF = in.checkModel(Not(cond))
			}
			if rT == Unknown || rF == Unknown {
				in.H.noteInconclusive("feasibility unknown at " + in.where() + ": " + in.Solver.LastErr)
			}
			switch {
			case rT != Unsat && rF != Unsat && in.loopHint < 0:
				d = 0
				addSib(1, mT)
				in.setModel(mF)
			case rT != Unsat && rF != Unsat:
				d = 1
				addSib(0, mF)
				in.setModel(mT)
			case rT != Unsat:
				d = 1
				in.setModel(mT)
			default:
				d = 0
				in.setModel(nil)
			}
		}
		in.pos++
		in.decisions = append(in.decisions, d|site<<16)
		in.H.Decisions++
	}
	if d == 1 {
		in.assume(cond)
		return true
	}
	in.assume(Not(cond))
	return false
}

// choose forks over n concrete alternatives (no solver involved).
func (in *Interp) choose(n int) int {
	if n <= 1 {
		return 0
	}
	in.specAbortIf("choose in region")
	var d int
	site := in.siteHash() ^ 0x5a5a
	if in.pos < len(in.prefix) {
		e := in.prefix[in.pos]
		if e>>16 != site {
			panic(&pathEnd{Kind: "diverged", Msg: "re-execution reached a different choice point than recorded (at " + in.where() + ")"})
		}
		d = e & 0xffff
	} else {
		d = 0
		for k := n - 1; k >= 1; k-- {
			sib := append(append([]int{}, in.decisions...), k|site<<16)
			in.newSibs = append(in.newSibs, Sib{Prefix: sib, Model: in.model})
		}
	}
	in.pos++
	in.decisions = append(in.decisions, d|site<<16)
	return d
}

// siteHash identifies the current decision point (function, block).
func (in *Interp) siteHash() int {
	fr := in.curFrame
	if fr == nil {
		return 1
	}
	h, ok := in.fnHash[fr.fn]
	if !ok {
		x := uint32(2166136261)
		for _, c := range []byte(fr.fn.String()) {
			x = (x ^ uint32(c)) * 16777619
		}
		h = int(x & 0xffffff)
		in.fnHash[fr.fn] = h
	}
	bi := 0
	if fr.block != nil {
		bi = fr.block.Index
	}
	return (h ^ (bi * 7919)) & 0xffffff
}

func trunc160(s string) string {
	if len(s) > 160 {
		return s[:160]
	}
	return s
}

func (in *Interp) where() string {
	if in.curFrame == nil {
		return "?"
	}
	return in.curFrame.fn.String()
}

func (h *HarnessRun) noteInconclusive(s string) {
	if len(h.Inconclusive) < 50 {
		h.Inconclusive = append(h.Inconclusive, s)
	} else if len(h.Inconclusive) == 50 {
		h.Inconclusive = append(h.Inconclusive, "…more")
	}
}

// concretizeInt forks over the values lo..hi of t (plus an "outside" arm that
// returns ok=false).
func (in *Interp) concretizeInt(t *Term, lo, hi int64) (int64, bool) {
	t = in.fold(t)
	if t.Op == OpConst {
		v := t.SInt()
		return v, v >= lo && v <= hi
	}
	for v := lo; v <= hi; v++ {
		if in.decide(Eq(t, BVConst(uint64(v), t.S.W))) {
			in.tryBind(t)
			return v, true
		}
	}
	return 0, false
}

// ---------- calling ----------

func (in *Interp) call(fr *Frame, fn V, args []V, site ssa.Instruction) V {
	f, ok := fn.(FuncV)
	if !ok {
		panic(fmt.Sprintf("call of %T", fn))
	}
	if f.Builtin != nil {
		return in.callBuiltin(fr, f.Builtin, args, site)
	}
	if f.Fn == nil {
		in.goPanicStr("invalid memory address or nil pointer dereference (nil func call)")
	}
	return in.callSSA(f.Fn, args, f.Env, fr)
}

func (in *Interp) callSSA(fn *ssa.Function, args []V, env []V, caller *Frame) V {
	name := fn.String()
	if in.H != nil && in.H.Funcs != nil {
		in.H.Funcs[name] = true
	}
	if intr, ok := in.intr[name]; ok {
		in.lastCallee = fn
		return intr(in, caller, args)
	}
	if fn.Synthetic != "" && strings.HasPrefix(fn.Synthetic, "instance of") {
		if o := fn.Origin(); o != nil {
			if intr, ok := in.intr[o.String()]; ok {
				return intr(in, caller, args)
			}
		}
	}
	if pk := fn.Package(); pk != nil && unmodelledPkg[pk.Pkg.Path()] {
		if fn.Name() == "init" {
			return nil
		}
		if effectPkg[pk.Pkg.Path()] {
			// OS-facing package: reaching it is an effect event; continue with
			// zero results and a non-nil error
			in.effect("os:" + name)
			return in.zeroResultsErr(fn, name)
		}
		in.unsupported("call into unmodelled package: %s", name)
	}
	if fn.Blocks == nil {
		if fn.Name() == "init" && fn.Pkg != nil {
			return nil
		}
		in.unsupported("external function %s", name)
	}
	if fn.Name() == "init" && fn.Pkg != nil && fn.Signature.Recv() == nil && fn.Parent() == nil && len(fn.Params) == 0 {
		// package initialiser reached from another initialiser
		if in.initDone[fn.Pkg] && caller != nil {
			return nil
		}
		if caller != nil && in.AllowInit != nil && !in.AllowInit(fn.Pkg.Pkg.Path()) {
			in.initDone[fn.Pkg] = true
			return nil
		}
		in.initDone[fn.Pkg] = true
		if caller != nil {
			// best-effort initialisation of a dependency: a package whose
			// initialiser needs an unmodelled facility (reflect, os, ...) keeps
			// zero values for what was not initialised
			return in.tolerantInit(fn, caller)
		}
	}
	in.depth++
	if in.depth > in.MaxDepth {
		in.depth--
		panic(&pathEnd{Kind: "unwind", Msg: "recursion depth > bound in " + name})
	}
	fi := in.info(fn)
	if fi.meterTick && in.workOn {
		// a metering call with a non-zero amount ends the current stretch of
		// unmetered work
		zero := true
		for _, a := range args[1:] {
			if t, ok := a.(*Term); ok && !(t.Op == OpConst && t.Lo == 0) {
				zero = false
			}
		}
		if !zero {
			if in.work > in.WorkMax {
				in.WorkMax = in.work
			}
			in.work = 0
		}
	}
	fr := &Frame{fn: fn, info: fi, regs: make([]V, fi.n), caller: caller}
	for i, p := range fn.Params {
		fr.regs[fi.idx[p]] = args[i]
	}
	for i, p := range fn.FreeVars {
		fr.regs[fi.idx[p]] = env[i]
	}
	fr.block = fn.Blocks[0]
	saved := in.curFrame
	in.curFrame = fr
	defer func() { in.curFrame = saved; in.depth-- }()
	for fr.block != nil {
		in.runFrame(fr)
	}
	return fr.result
}

func (in *Interp) tolerantInit(fn *ssa.Function, caller *Frame) (res V) {
	saved := in.curFrame
	savedDepth := in.depth
	defer func() {
		if r := recover(); r != nil {
			if pe, ok := r.(*pathEnd); ok && pe.Kind == "unsupported" {
				in.InitNotes = append(in.InitNotes, fn.Pkg.Pkg.Path()+": "+pe.Msg)
				in.curFrame = saved
				in.depth = savedDepth
				res = nil
				return
			}
			panic(r)
		}
	}()
	in.depth++
	fi := in.info(fn)
	fr := &Frame{fn: fn, info: fi, regs: make([]V, fi.n), caller: caller}
	fr.block = fn.Blocks[0]
	in.curFrame = fr
	for fr.block != nil {
		in.runFrame(fr)
	}
	in.curFrame = saved
	in.depth--
	return fr.result
}

func (in *Interp) runFrame(fr *Frame) {
	defer func() {
		if fr.block == nil {
			return // normal return
		}
		r := recover()
		gp, ok := r.(*goPanic)
		if !ok {
			panic(r) // pathEnd or engine bug: unwind without running simulated defers
		}
		in.curFrame = fr
		fr.panicking = true
		fr.panic = gp
		in.runDefers(fr)
		// recovered
		fr.block = fr.fn.Recover
		if fr.block == nil {
			// function without named results: return zero values
			fr.result = in.zeroResults(fr.fn)
		}
	}()
	for {
		b := fr.block
		if in.MaxLoop > 0 {
			if fr.visits == nil {
				fr.visits = map[*ssa.BasicBlock]int{}
			}
		}
		// phis
		i := 0
		if fr.skipPhis {
			fr.skipPhis = false
			for i < len(b.Instrs) {
				if _, ok := b.Instrs[i].(*ssa.Phi); !ok {
					break
				}
				i++
			}
		} else if len(b.Instrs) > 0 {
			if _, ok := b.Instrs[0].(*ssa.Phi); ok {
				var vals []V
				pi := -1
				for k, p := range b.Preds {
					if p == fr.prev {
						pi = k
						break
					}
				}
				for ; i < len(b.Instrs); i++ {
					phi, ok := b.Instrs[i].(*ssa.Phi)
					if !ok {
						break
					}
					vals = append(vals, in.get(fr, phi.Edges[pi]))
				}
				for k := 0; k < i; k++ {
					in.set(fr, b.Instrs[k].(*ssa.Phi), vals[k])
				}
			}
		}
		jumped := false
		for ; i < len(b.Instrs); i++ {
			in.steps++
			if in.steps > in.MaxSteps {
				panic(&pathEnd{Kind: "budget", Msg: "step budget in " + fr.fn.String()})
			}
			switch in.exec(fr, b.Instrs[i]) {
			case kReturn:
				return
			case kJump:
				jumped = true
			}
			if jumped {
				break
			}
		}
		if !jumped {
			panic("block fell through: " + fr.fn.String())
		}
	}
}

func (in *Interp) zeroResults(fn *ssa.Function) V {
	res := fn.Signature.Results()
	switch res.Len() {
	case 0:
		return nil
	case 1:
		return in.zero(res.At(0).Type())
	}
	return in.zero(res)
}

func (in *Interp) runDefers(fr *Frame) {
	for len(fr.defers) > 0 {
		d := fr.defers[len(fr.defers)-1]
		fr.defers = fr.defers[:len(fr.defers)-1]
		in.runDefer(fr, d)
	}
	if fr.panicking {
		panic(fr.panic)
	}
}

func (in *Interp) runDefer(fr *Frame, d deferred) {
	ok := false
	defer func() {
		if !ok {
			r := recover()
			gp, isGP := r.(*goPanic)
			if !isGP {
				panic(r)
			}
			in.curFrame = fr
			fr.panicking = true
			fr.panic = gp
		}
	}()
	in.call(fr, d.fn, d.args, d.site)
	ok = true
}

// unmodelledPkg lists packages whose code is never executed symbolically.
var unmodelledPkg = map[string]bool{
	"os/exec": true, "net": true, "plugin": true,
	"reflect": true, "os/signal": true, "net/http": true, "os/user": true, "io/ioutil": true,
}

// effectPkg: unmodelled packages whose every entry point is an OS effect.
var effectPkg = map[string]bool{"os/exec": true, "net": true, "plugin": true, "io/ioutil": true, "net/http": true, "os/signal": true, "os/user": true}

func (in *Interp) zeroResultsErr(fn *ssa.Function, name string) V {
	res := fn.Signature.Results()
	mk := func(t types.Type) V {
		if types.Identical(t, types.Universe.Lookup("error").Type()) {
			return in.newError("verif: OS primitive " + name + " not executed")
		}
		return in.zero(t)
	}
	switch res.Len() {
	case 0:
		return nil
	case 1:
		return mk(res.At(0).Type())
	}
	tv := make(TupleV, res.Len())
	for i := range tv {
		tv[i] = mk(res.At(i).Type())
	}
	return tv
}

type cont int

const (
	kNext cont = iota
	kReturn
	kJump
)

func (in *Interp) prepareCall(fr *Frame, c *ssa.CallCommon) (V, []V) {
	v := in.get(fr, c.Value)
	var args []V
	var fn V
	if c.Method == nil {
		fn = v
	} else {
		recv := v.(IfaceV)
		if recv.T == nil {
			in.goPanicStr("invalid memory address or nil pointer dereference (method on nil interface)")
		}
		m := in.Prog.LookupMethod(recv.T, c.Method.Pkg(), c.Method.Name())
		if m == nil {
			in.unsupported("no method %s on %s", c.Method.Name(), recv.T)
		}
		fn = FuncV{Fn: m}
		args = append(args, recv.V)
	}
	for _, a := range c.Args {
		args = append(args, in.get(fr, a))
	}
	return fn, args
}

func (in *Interp) exec(fr *Frame, instr ssa.Instruction) cont {
	switch x := instr.(type) {
	case *ssa.DebugRef:
	case *ssa.UnOp:
		in.set(fr, x, in.unop(fr, x))
	case *ssa.BinOp:
		in.set(fr, x, in.binop(x.Op, x.X.Type(), x.Y.Type(), in.get(fr, x.X), in.get(fr, x.Y)))
	case *ssa.Call:
		fn, args := in.prepareCall(fr, &x.Call)
		res := in.call(fr, fn, args, x)
		in.curFrame = fr
		in.set(fr, x, res)
	case *ssa.ChangeInterface:
		in.set(fr, x, in.get(fr, x.X))
	case *ssa.ChangeType:
		in.set(fr, x, in.get(fr, x.X))
	case *ssa.Convert:
		in.set(fr, x, in.convert(x.Type(), x.X.Type(), in.get(fr, x.X)))
	case *ssa.MultiConvert:
		in.set(fr, x, in.convert(x.Type(), x.X.Type(), in.get(fr, x.X)))
	case *ssa.SliceToArrayPointer:
		s := in.get(fr, x.X).(SliceV)
		n := int(x.Type().(*types.Pointer).Elem().Underlying().(*types.Array).Len())
		if s.Len < n {
			in.goPanicStr("cannot convert slice to array pointer: length too short")
		}
		if s.Arr == nil {
			in.set(fr, x, Ptr{})
		} else if s.Off == 0 && len(s.Arr.Kids) == n {
			in.set(fr, x, Ptr{C: s.Arr})
		} else {
			in.unsupported("SliceToArrayPointer of sub-slice")
		}
	case *ssa.MakeInterface:
		in.set(fr, x, IfaceV{T: x.X.Type(), V: in.get(fr, x.X)})
	case *ssa.Extract:
		in.set(fr, x, in.get(fr, x.Tuple).(TupleV)[x.Index])
	case *ssa.Slice:
		in.set(fr, x, in.sliceOp(fr, x))
	case *ssa.Return:
		switch len(x.Results) {
		case 0:
		case 1:
			fr.result = in.get(fr, x.Results[0])
		default:
			res := make(TupleV, len(x.Results))
			for i, r := range x.Results {
				res[i] = in.get(fr, r)
			}
			fr.result = res
		}
		fr.block = nil
		return kReturn
	case *ssa.RunDefers:
		in.runDefers(fr)
	case *ssa.Panic:
		v := in.get(fr, x.X)
		panic(&goPanic{Val: v, Msg: in.panicText(v), Stack: in.stackString()})
	case *ssa.Send:
		in.chanSend(in.get(fr, x.Chan).(ChanV), in.get(fr, x.X))
	case *ssa.Store:
		in.store(in.get(fr, x.Addr).(Ptr), in.get(fr, x.Val))
	case *ssa.If:
		c := in.get(fr, x.Cond).(*Term)
		if c.Op != OpConst {
			// outcome already implied (syntactically or by a byte's domain)?
			if v, ok := in.known(c); ok {
				c = BoolT(v)
			} else if v, forced := in.domForced(c); forced {
				in.DomForced++
				in.learn(c, v)
				c = BoolT(v)
			}
		}
		if c.Op != OpConst && in.tryMerge(fr, x, c) {
			return kJump
		}
		succ := 1
		if in.workOn && c.Op != OpConst {
			in.loopHint = in.loopSide(fr.block)
		}
		dec := in.decide(c)
		in.loopHint = 0
		if dec {
			succ = 0
		}
		in.jumpTo(fr, fr.block.Succs[succ])
		return kJump
	case *ssa.Jump:
		in.jumpTo(fr, fr.block.Succs[0])
		return kJump
	case *ssa.Defer:
		in.specAbortIf("defer in region")
		fn, args := in.prepareCall(fr, &x.Call)
		fr.defers = append(fr.defers, deferred{fn: fn, args: args, site: x})
	case *ssa.Go:
		in.specAbortIf("go in region")
		fn, args := in.prepareCall(fr, &x.Call)
		in.spawn(fr, fn, args, x)
	case *ssa.MakeChan:
		n := in.concInt(in.get(fr, x.Size), "chan size")
		in.cellID++
		in.set(fr, x, ChanV{C: &ChanObj{ID: in.cellID, Cap: n, ET: x.Type().Underlying().(*types.Chan).Elem()}})
	case *ssa.Alloc:
		t := x.Type().(*types.Pointer).Elem()
		c := in.newCell(t, in.pos2str(x.Pos()))
		in.set(fr, x, Ptr{C: c})
	case *ssa.MakeSlice:
		et := x.Type().Underlying().(*types.Slice).Elem()
		ln := in.makeLen(in.get(fr, x.Len), "len")
		cp := in.makeLen(in.get(fr, x.Cap), "cap")
		if ln > cp {
			in.goPanicStr("makeslice: cap out of range")
		}
		arr := in.newArrayCell(et, cp, in.pos2str(x.Pos()))
		in.set(fr, x, SliceV{Arr: arr, Off: 0, Len: ln, Cap: cp})
	case *ssa.MakeMap:
		mt := x.Type().Underlying().(*types.Map)
		in.set(fr, x, MapV{M: in.newMap(mt.Key(), mt.Elem())})
	case *ssa.Range:
		in.set(fr, x, in.rangeIter(in.get(fr, x.X)))
	case *ssa.Next:
		in.set(fr, x, in.iterNext(in.get(fr, x.Iter).(*IterV), x))
	case *ssa.FieldAddr:
		p := in.get(fr, x.X).(Ptr)
		if p.C == nil {
			in.goPanicStr("invalid memory address or nil pointer dereference")
		}
		if p.Re != nil {
			in.unsupported("FieldAddr on reinterpreted pointer")
		}
		in.set(fr, x, Ptr{C: p.C.Kids[x.Field]})
	case *ssa.Field:
		in.set(fr, x, in.get(fr, x.X).(StructV)[x.Field])
	case *ssa.IndexAddr:
		in.set(fr, x, in.indexAddr(fr, x))
	case *ssa.Index:
		in.set(fr, x, in.indexOp(fr, x))
	case *ssa.Lookup:
		in.set(fr, x, in.lookup(fr, x))
	case *ssa.MapUpdate:
		m := in.get(fr, x.Map).(MapV)
		in.mapSet(m.M, in.get(fr, x.Key), in.get(fr, x.Value))
	case *ssa.TypeAssert:
		in.set(fr, x, in.typeAssert(x, in.get(fr, x.X).(IfaceV)))
	case *ssa.MakeClosure:
		var env []V
		for _, b := range x.Bindings {
			env = append(env, in.get(fr, b))
		}
		in.funcIDs++
		in.set(fr, x, FuncV{Fn: x.Fn.(*ssa.Function), Env: env, ID: in.funcIDs})
	case *ssa.Select:
		in.set(fr, x, in.selectOp(fr, x))
	default:
		in.unsupported("instruction %T", instr)
	}
	return kNext
}

func (in *Interp) jumpTo(fr *Frame, to *ssa.BasicBlock) {
	if in.workOn && to.Index <= fr.block.Index {
		// back edge: one unit of work since the last metering call
		in.work++
		if in.work > in.WorkBound {
			in.specAbortIf("work bound in region")
			panic(&pathEnd{Kind: "work", Msg: fmt.Sprintf("more than %d loop iterations without a metering call, in %s @ %s", in.WorkBound, fr.fn.String(), in.stackString())})
		}
	}
	fr.prev, fr.block = fr.block, to
}

// concInt requires a concrete integer.
func (in *Interp) concInt(v V, what string) int {
	t := in.fold(v.(*Term))
	if t.Op != OpConst {
		in.unsupported("symbolic %s", what)
	}
	return int(t.SInt())
}

// makeLen converts a make() size; symbolic sizes are an "unmetered allocation"
// event unless the harness installed a bound.
func (in *Interp) makeLen(v V, what string) int {
	t := in.fold(v.(*Term))
	if t.Op != OpConst {
		// Try small concretisation within the allocation bound.
		if in.AllocBound > 0 {
			// negative or oversize => panic/alloc event
			neg := BVCmp(OpBVSlt, t, BVConst(0, t.S.W))
			if in.decide(neg) {
				in.goPanicStr("makeslice: " + what + " out of range")
			}
			big := BVCmp(OpBVSlt, BVConst(uint64(in.AllocBound), t.S.W), t)
			if in.decide(big) {
				in.allocEvent(t)
			}
			n, ok := in.concretizeInt(t, 0, int64(in.AllocBound))
			if ok {
				return int(n)
			}
		}
		in.unsupported("symbolic make %s", what)
	}
	n := t.SInt()
	if n < 0 {
		in.goPanicStr("makeslice: " + what + " out of range")
	}
	if n > 1<<24 {
		in.allocEvent(t)
	}
	return int(n)
}

func (in *Interp) panicText(v V) string {
	iv, ok := v.(IfaceV)
	if !ok {
		return fmt.Sprintf("%T", v)
	}
	if iv.T == nil {
		return "panic(nil)"
	}
	switch x := iv.V.(type) {
	case StrV:
		if x.Concrete() {
			return x.Go()
		}
		return "<symbolic string>"
	case *Term:
		return typeString(iv.T) + "(" + x.String() + ")"
	}
	// error values: try a concrete Error() when cheap
	return "value of type " + typeString(iv.T)
}

// ---------- sorted helper ----------

func sortedKeys(m map[string]bool) []string {
	var r []string
	for k := range m {
		r = append(r, k)
	}
	sort.Strings(r)
	return r
}

func debugf(format string, a ...interface{}) {
	if os.Getenv("GOSYM_DEBUG") != "" {
		fmt.Fprintf(os.Stderr, format+"\n", a...)
	}
}


// loopSide tells which successor of a two-way branch can reach the branch
// again (stays in a loop) when the other cannot: +1 Succs[0], -1 Succs[1], 0
// otherwise.
func (in *Interp) loopSide(b *ssa.BasicBlock) int {
	if len(b.Succs) != 2 {
		return 0
	}
	if in.stays == nil {
		in.stays = map[*ssa.BasicBlock][2]bool{}
	}
	st, ok := in.stays[b]
	if !ok {
		reach := func(from *ssa.BasicBlock) bool {
			seen := map[*ssa.BasicBlock]bool{}
			stack := []*ssa.BasicBlock{from}
			for len(stack) > 0 {
				x := stack[len(stack)-1]
				stack = stack[:len(stack)-1]
				if x == b {
					return true
				}
				if seen[x] {
					continue
				}
				seen[x] = true
				stack = append(stack, x.Succs...)
			}
			return false
		}
		st = [2]bool{reach(b.Succs[0]), reach(b.Succs[1])}
		in.stays[b] = st
	}
	switch {
	case st[0] && !st[1]:
		return 1
	case st[1] && !st[0]:
		return -1
	}
	return 0
}
