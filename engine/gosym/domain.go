package gosym

import (
	"fmt"
	"os"
)

// Small-domain propagation for byte-sized variables.  Code that scans input
// byte by byte branches again and again on conditions over a single symbolic
// byte; most of those branches are already decided by earlier constraints on
// the same byte.  For every 8-bit (or narrower) variable the set of values
// allowed by the single-variable constraints of the path is kept as a bitset;
// it over-approximates the values the variable can take under the path
// condition, so a branch side that no value of the set satisfies is
// infeasible and needs no solver query.  Sides the set allows are still
// decided by the solver.

type domain [4]uint64

type soleInfo struct {
	kind int // 0 no variable, 1 exactly one, 2 several / uninterpreted
	v    *Term
}

func (in *Interp) soleVar(t *Term) soleInfo {
	if in.soleMemo == nil {
		in.soleMemo = map[*Term]soleInfo{}
	}
	if r, ok := in.soleMemo[t]; ok {
		return r
	}
	var r soleInfo
	switch t.Op {
	case OpConst:
	case OpVar:
		r = soleInfo{1, t}
	case OpUF:
		r = soleInfo{kind: 2}
	default:
		for _, a := range t.Args {
			x := in.soleVar(a)
			switch {
			case x.kind == 2:
				r = x
			case x.kind == 1 && r.kind == 0:
				r = x
			case x.kind == 1 && r.kind == 1 && r.v.Name != x.v.Name:
				r = soleInfo{kind: 2}
			}
			if r.kind == 2 {
				break
			}
		}
	}
	if len(in.soleMemo) > 1<<20 {
		in.soleMemo = map[*Term]soleInfo{}
	}
	in.soleMemo[t] = r
	return r
}

func smallVar(v *Term) bool { return v != nil && v.S.K == SBV && v.S.W <= 8 }

func (in *Interp) domOf(v *Term) domain {
	if d, ok := in.dom[v.Name]; ok {
		return d
	}
	var d domain
	n := 1 << uint(v.S.W)
	for i := 0; i < n; i++ {
		d[i>>6] |= 1 << uint(i&63)
	}
	return d
}

// split partitions the domain of c's only variable by the value of c.
func (in *Interp) domSplit(c *Term) (v *Term, t, f domain, ok bool) {
	si := in.soleVar(c)
	if si.kind != 1 || !smallVar(si.v) {
		return nil, t, f, false
	}
	v = si.v
	d := in.domOf(v)
	savedModel, savedMemo := in.model, in.evalMemo
	defer func() { in.model, in.evalMemo = savedModel, savedMemo }()
	n := 1 << uint(v.S.W)
	for i := 0; i < n; i++ {
		if d[i>>6]&(1<<uint(i&63)) == 0 {
			continue
		}
		in.model = map[string]ModelValue{v.Name: {Sort: v.S, Lo: uint64(i)}}
		in.evalMemo = nil
		b, okb := in.evalBool(c)
		if !okb {
			if os.Getenv("GOSYM_DOMDBG") != "" {
				fmt.Fprintf(os.Stderr, "domSplit: cannot evaluate %s\n", trunc160(c.String()))
			}
			return nil, t, f, false
		}
		if b {
			t[i>>6] |= 1 << uint(i&63)
		} else {
			f[i>>6] |= 1 << uint(i&63)
		}
	}
	return v, t, f, true
}

func (d domain) empty() bool { return d[0]|d[1]|d[2]|d[3] == 0 }

type domTrailEnt struct {
	name string
	old  domain
	had  bool
}

// domRestrict narrows the domain of the only variable of an assumed condition.
func (in *Interp) domRestrict(c *Term) {
	v, t, _, ok := in.domSplit(c)
	if !ok {
		return
	}
	old, had := in.dom[v.Name]
	if had && old == t {
		return
	}
	in.domTrail = append(in.domTrail, domTrailEnt{v.Name, old, had})
	in.dom[v.Name] = t
}

func (in *Interp) domUndoTo(n int) {
	for i := len(in.domTrail) - 1; i >= n; i-- {
		e := in.domTrail[i]
		if e.had {
			in.dom[e.name] = e.old
		} else {
			delete(in.dom, e.name)
		}
	}
	in.domTrail = in.domTrail[:n]
}

// domForced reports a branch outcome implied by the variable's domain.
func (in *Interp) domForced(c *Term) (val bool, forced bool) {
	if in.NoDomains {
		return false, false
	}
	_, t, f, ok := in.domSplit(c)
	if !ok {
		return false, false
	}
	switch {
	case t.empty() && f.empty():
		return false, false // empty domain: the path is infeasible; let the solver say so
	case t.empty():
		return false, true
	case f.empty():
		return true, true
	}
	return false, false
}

// domConst replaces a term over one byte-sized variable by its value when
// every value in the variable's domain gives the same result (typically a
// merged "width" or "length" that the path condition has already fixed).
func (in *Interp) domConst(t *Term) *Term {
	if in.NoDomains || t.Op == OpConst || t.S.K != SBV {
		return t
	}
	si := in.soleVar(t)
	if si.kind != 1 || !smallVar(si.v) {
		return t
	}
	v := si.v
	d := in.domOf(v)
	savedModel, savedMemo := in.model, in.evalMemo
	defer func() { in.model, in.evalMemo = savedModel, savedMemo }()
	var res *Term
	n := 1 << uint(v.S.W)
	for i := 0; i < n; i++ {
		if d[i>>6]&(1<<uint(i&63)) == 0 {
			continue
		}
		in.model = map[string]ModelValue{v.Name: {Sort: v.S, Lo: uint64(i)}}
		in.evalMemo = nil
		r := in.eval(t)
		if r == nil {
			return t
		}
		if res == nil {
			res = r
		} else if res.Lo != r.Lo || res.Hi != r.Hi {
			return t
		}
	}
	if res == nil {
		return t
	}
	return res
}

// ---- variables fixed by the path condition ----
//
// When concretising a size or index fixes the only variable it depends on
// (N*2+1 == 75 leaves one N), the variable is bound to its value: later
// branch conditions and sizes over bound variables are evaluated directly.

func (in *Interp) evalBound(t *Term) *Term {
	if len(in.bound) == 0 || t.Op == OpConst {
		return nil
	}
	savedModel, savedMemo := in.model, in.evalMemo
	in.model, in.evalMemo = in.bound, in.boundMemo
	r := in.eval(t)
	in.boundMemo = in.evalMemo
	in.model, in.evalMemo = savedModel, savedMemo
	return r
}

// fold returns the constant value of t when all its variables are bound.
func (in *Interp) fold(t *Term) *Term {
	if r := in.evalBound(t); r != nil {
		return r
	}
	return t
}

// tryBind binds the only variable of t when the path condition leaves it a
// single value.
func (in *Interp) tryBind(t *Term) {
	if in.spec > 0 || in.NoDomains {
		return
	}
	si := in.soleVar(t)
	if si.kind != 1 || si.v.S.K != SBV {
		return
	}
	x := si.v
	if _, ok := in.bound[x.Name]; ok {
		return
	}
	if in.Solver.Check() != Sat {
		return
	}
	m, err := in.Solver.GetValues([]*Term{x})
	if err != nil {
		return
	}
	mv, ok := m[x.Name]
	if !ok {
		return
	}
	c := BVConst128(mv.Hi, mv.Lo, x.S.W)
	if in.Solver.CheckWith(Not(Eq(x, c))) != Unsat {
		return
	}
	if in.bound == nil {
		in.bound = map[string]ModelValue{}
	}
	in.bound[x.Name] = mv
	in.boundMemo = nil
}
