package gosym

import (
	"go/types"

	"golang.org/x/tools/go/ssa"
)

type chanWaiter struct {
	g   int
	val V
	ok  bool
	done bool
}

type scheduler struct {
	cur    int
	raceOn bool
}

func (s *scheduler) note(in *Interp, c *Cell, write bool) {}

func (in *Interp) spawn(fr *Frame, fn V, args []V, site ssa.Instruction) {
	in.unsupported("go statement")
}

func (in *Interp) chanSend(c ChanV, v V) {
	in.specAbortIf("chan op in region")
	if c.C == nil {
		in.unsupported("send on nil channel (blocks forever)")
	}
	if c.C.Closed {
		in.goPanicStr("send on closed channel")
	}
	if len(c.C.Buf) < c.C.Cap {
		ch := c.C
		ch.Buf = append(ch.Buf, v)
		in.trailFn(func() { ch.Buf = ch.Buf[:len(ch.Buf)-1] })
		return
	}
	in.unsupported("blocking channel send")
}

func (in *Interp) chanRecv(c ChanV) (V, bool) {
	in.specAbortIf("chan op in region")
	if c.C == nil {
		in.unsupported("recv on nil channel")
	}
	ch := c.C
	if len(ch.Buf) > 0 {
		v := ch.Buf[0]
		old := ch.Buf
		ch.Buf = append([]V{}, ch.Buf[1:]...)
		in.trailFn(func() { ch.Buf = old })
		return v, true
	}
	if ch.Closed {
		return in.zero(ch.ET), false
	}
	in.unsupported("blocking channel recv")
	return nil, false
}

func (in *Interp) chanClose(c ChanV) {
	in.specAbortIf("chan op in region")
	if c.C == nil {
		in.goPanicStr("close of nil channel")
	}
	if c.C.Closed {
		in.goPanicStr("close of closed channel")
	}
	ch := c.C
	ch.Closed = true
	in.trailFn(func() { ch.Closed = false })
}

func (in *Interp) selectOp(fr *Frame, x *ssa.Select) V {
	// non-blocking select over buffered channels only
	for i, st := range x.States {
		ch := in.get(fr, st.Chan).(ChanV)
		if ch.C == nil {
			continue
		}
		if st.Dir == types.SendOnly {
			if len(ch.C.Buf) < ch.C.Cap && !ch.C.Closed {
				in.chanSend(ch, in.get(fr, st.Send))
				return in.selectResult(x, i, true, nil)
			}
		} else {
			if len(ch.C.Buf) > 0 || ch.C.Closed {
				v, ok := in.chanRecv(ch)
				return in.selectResult(x, i, ok, v)
			}
		}
	}
	if !x.Blocking {
		return in.selectResult(x, -1, false, nil)
	}
	in.unsupported("blocking select")
	return nil
}

func (in *Interp) selectResult(x *ssa.Select, idx int, recvOk bool, recv V) V {
	r := TupleV{BVConst(uint64(int64(idx)), 64), BoolT(recvOk)}
	for i, st := range x.States {
		if st.Dir == types.RecvOnly {
			if i == idx && recv != nil {
				r = append(r, recv)
			} else {
				r = append(r, in.zero(st.Chan.Type().Underlying().(*types.Chan).Elem()))
			}
		}
	}
	return r
}
