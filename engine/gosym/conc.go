package gosym

import (
	"fmt"
	"go/types"

	"golang.org/x/tools/go/ssa"
)

// Cooperative goroutine model.  Every simulated goroutine runs on its own host
// goroutine, but exactly one of them holds the baton at any time, so the
// interpreter state is never accessed concurrently.  Unbuffered channels
// rendezvous, buffered channels are queues, mutexes have owners.  A goroutine
// that blocks hands the baton to a runnable one (a choice point when several
// are runnable); when none is runnable the program is deadlocked.
//
// Data races are detected with vector clocks (happens-before edges: go
// statement, channel send/receive/close, mutex unlock/lock): two accesses to
// the same memory cell, at least one a write, that are not ordered are a race,
// whatever the schedule actually taken.

type simG struct {
	id      int
	wake    chan struct{}
	done    bool
	blocked bool
	vc      []int
	// saved interpreter state while not running
	frame *Frame
	depth int
	// value handed over by a channel partner
	xval  V
	xok   bool
	xfrom []int // vector clock received
	name  string
}

type chanWaiter struct {
	g   *simG
	val V
}

type scheduler struct {
	in      *Interp
	gs      []*simG
	cur     int
	raceOn  bool
	abort   interface{} // set when the path is being torn down
	races   []string
	mutexes map[*Cell]*simMutex
}

type simMutex struct {
	owner   *simG
	waiters []*simG
	vc      []int
}

type raceInfo struct {
	wG, wC int
	reads  []int // pairs (g, clock)
	wWhere string
}

type tearDown struct{}

func (in *Interp) ensureSched() *scheduler {
	if in.sched == nil {
		s := &scheduler{in: in, mutexes: map[*Cell]*simMutex{}}
		g0 := &simG{id: 0, wake: make(chan struct{}, 1), vc: []int{1}, name: "main"}
		s.gs = []*simG{g0}
		in.sched = s
	}
	return in.sched
}

func (s *scheduler) curG() *simG { return s.gs[s.cur] }

func joinVC(a, b []int) []int {
	if len(b) > len(a) {
		a = append(a, make([]int, len(b)-len(a))...)
	}
	for i, v := range b {
		if v > a[i] {
			a[i] = v
		}
	}
	return a
}

func (s *scheduler) tick(g *simG) {
	for len(g.vc) <= g.id {
		g.vc = append(g.vc, 0)
	}
	g.vc[g.id]++
}

func (s *scheduler) note(in *Interp, c *Cell, write bool) {
	if len(s.gs) < 2 {
		return
	}
	g := s.curG()
	ri := c.race
	if ri == nil {
		ri = &raceInfo{wG: -1}
		c.race = ri
		in.trailFn(func() { c.race = nil })
	}
	hb := func(og, oc int) bool { return og == g.id || (og < len(g.vc) && g.vc[og] >= oc) }
	where := in.where()
	if ri.wG >= 0 && !hb(ri.wG, ri.wC) {
		s.report(c, fmt.Sprintf("write by goroutine %d in %s", ri.wG, ri.wWhere), where, write)
	}
	if write {
		for i := 0; i+1 < len(ri.reads); i += 2 {
			if !hb(ri.reads[i], ri.reads[i+1]) {
				s.report(c, fmt.Sprintf("read by goroutine %d", ri.reads[i]), where, true)
			}
		}
		for len(g.vc) <= g.id {
			g.vc = append(g.vc, 0)
		}
		ri.wG, ri.wC, ri.wWhere = g.id, g.vc[g.id], where
		ri.reads = ri.reads[:0]
	} else {
		for len(g.vc) <= g.id {
			g.vc = append(g.vc, 0)
		}
		for i := 0; i+1 < len(ri.reads); i += 2 {
			if ri.reads[i] == g.id {
				ri.reads[i+1] = g.vc[g.id]
				return
			}
		}
		ri.reads = append(ri.reads, g.id, g.vc[g.id])
	}
}

func (s *scheduler) report(c *Cell, prev, where string, write bool) {
	top := c
	for top.Parent != nil {
		top = top.Parent
	}
	kind := "read"
	if write {
		kind = "write"
	}
	msg := fmt.Sprintf("data race on %s (%s): %s vs %s by goroutine %d in %s", top.Tag, typeString(c.T), prev, kind, s.cur, where)
	for _, r := range s.races {
		if r == msg {
			return
		}
	}
	if len(s.races) < 20 {
		s.races = append(s.races, msg)
	}
}

// ---- scheduling ----

func (s *scheduler) runnable() []*simG {
	var r []*simG
	for _, g := range s.gs {
		if !g.done && !g.blocked {
			r = append(r, g)
		}
	}
	return r
}

// block parks the current goroutine until another one makes it runnable and
// the baton comes back.
func (s *scheduler) block() {
	in := s.in
	in.specAbortIf("blocking operation in region")
	g := s.curG()
	g.blocked = true
	s.yieldTo(s.pickNext(g))
}

func (s *scheduler) pickNext(except *simG) *simG {
	var cands []*simG
	for _, g := range s.gs {
		if !g.done && !g.blocked && g != except {
			cands = append(cands, g)
		}
	}
	if len(cands) == 0 {
		return nil
	}
	if len(cands) == 1 {
		return cands[0]
	}
	return cands[s.in.choose(len(cands))]
}

// yieldTo hands the baton to next and waits until it is given back.
func (s *scheduler) yieldTo(next *simG) {
	in := s.in
	g := s.curG()
	if next == nil {
		// nobody can run: deadlock (unless the current goroutine is runnable)
		if !g.blocked {
			return
		}
		g.blocked = false
		panic(&goPanic{Val: IfaceV{T: types.Typ[types.String], V: StrV{S: "all goroutines are asleep - deadlock!"}},
			Msg: "fatal error: all goroutines are asleep - deadlock!", Stack: in.stackString()})
	}
	g.frame, g.depth = in.curFrame, in.depth
	s.cur = next.id
	in.curFrame, in.depth = next.frame, next.depth
	next.wake <- struct{}{}
	<-g.wake
	// resumed
	s.cur = g.id
	in.curFrame, in.depth = g.frame, g.depth
	if s.abort != nil {
		panic(&tearDown{})
	}
}

func (in *Interp) spawn(fr *Frame, fn V, args []V, site ssa.Instruction) {
	in.specAbortIf("go in region")
	s := in.ensureSched()
	parent := s.curG()
	g := &simG{id: len(s.gs), wake: make(chan struct{}, 1), name: fmt.Sprintf("g%d", len(s.gs))}
	s.tick(parent)
	g.vc = append([]int{}, parent.vc...)
	for len(g.vc) <= g.id {
		g.vc = append(g.vc, 0)
	}
	g.vc[g.id] = 1
	s.gs = append(s.gs, g)
	in.GoroutinesStarted++
	go func() {
		<-g.wake
		if s.abort == nil {
			func() {
				defer func() {
					if r := recover(); r != nil {
						if _, ok := r.(*tearDown); ok {
							return
						}
						// pathEnd, uncaught goPanic or engine bug: tear the path down
						if s.abort == nil {
							s.abort = r
						}
					}
				}()
				s.cur = g.id
				in.curFrame, in.depth = nil, 0
				in.call(nil, fn, args, site)
			}()
		}
		g.done = true
		// hand the baton on: to a runnable goroutine, or back to main on teardown/deadlock
		if s.abort != nil {
			s.wakeForTeardown(g)
			return
		}
		next := s.pickNextNoChoice(g)
		if next == nil {
			// everybody else is blocked: deadlock; report through main
			s.abort = &goPanic{Val: IfaceV{T: types.Typ[types.String], V: StrV{S: "all goroutines are asleep - deadlock!"}},
				Msg: "fatal error: all goroutines are asleep - deadlock!"}
			s.wakeForTeardown(g)
			return
		}
		s.cur = next.id
		in.curFrame, in.depth = next.frame, next.depth
		next.wake <- struct{}{}
	}()
}

func (s *scheduler) pickNextNoChoice(except *simG) *simG {
	for _, g := range s.gs {
		if !g.done && !g.blocked && g != except {
			return g
		}
	}
	return nil
}

// wakeForTeardown passes the baton to some goroutine that has not finished so
// that it can unwind; main (g0) is woken last and re-raises the abort value.
func (s *scheduler) wakeForTeardown(from *simG) {
	for i := len(s.gs) - 1; i >= 0; i-- {
		g := s.gs[i]
		if g != from && !g.done && g.id != 0 {
			g.blocked = false
			s.cur = g.id
			g.wake <- struct{}{}
			return
		}
	}
	s.cur = 0
	s.gs[0].blocked = false
	s.gs[0].wake <- struct{}{}
}

// finish is called by the explorer (on main) when the harness function has
// returned or panicked: remaining goroutines are torn down.
func (s *scheduler) finish(cause interface{}) {
	if s.abort == nil {
		s.abort = cause
		if s.abort == nil {
			s.abort = &tearDown{}
		}
	}
	for {
		var pending *simG
		for _, g := range s.gs {
			if g.id != 0 && !g.done {
				pending = g
				break
			}
		}
		if pending == nil {
			return
		}
		pending.blocked = false
		s.cur = pending.id
		pending.wake <- struct{}{}
		<-s.gs[0].wake
	}
}

// quiesce lets every runnable goroutine other than the current one run until
// it blocks or finishes (in real Go they run concurrently and get there on
// their own).
func (s *scheduler) quiesce() {
	for rounds := 0; rounds < 1000; rounds++ {
		g := s.curG()
		var next *simG
		for _, o := range s.gs {
			if o != g && !o.done && !o.blocked {
				next = o
				break
			}
		}
		if next == nil {
			return
		}
		s.yieldTo(next)
	}
}

// LiveGoroutines counts simulated goroutines (other than main) not finished.
func (s *scheduler) live() int {
	n := 0
	for _, g := range s.gs {
		if g.id != 0 && !g.done {
			n++
		}
	}
	return n
}

// ---- channels ----

func (in *Interp) chanSend(c ChanV, v V) {
	in.specAbortIf("chan op in region")
	if c.C == nil {
		in.unsupported("send on nil channel (blocks forever)")
	}
	ch := c.C
	if ch.Closed {
		in.goPanicStr("send on closed channel")
	}
	s := in.ensureSched()
	g := s.curG()
	s.tick(g)
	// a receiver is waiting: hand over directly
	if len(ch.recvq) > 0 {
		w := ch.recvq[0]
		ch.recvq = ch.recvq[1:]
		w.g.xval, w.g.xok = v, true
		w.g.vc = joinVC(w.g.vc, g.vc)
		g.vc = joinVC(g.vc, w.g.vc) // rendezvous synchronises both ways
		w.g.blocked = false
		s.tick(g) // what follows is not ordered before the receiver's next steps
		s.tick(w.g)
		return
	}
	if len(ch.Buf) < ch.Cap {
		ch.Buf = append(ch.Buf, v)
		ch.bufVC = append(ch.bufVC, append([]int{}, g.vc...))
		s.tick(g)
		return
	}
	// block until a receiver arrives
	ch.sendq = append(ch.sendq, &chanWaiter{g: g, val: v})
	s.block()
}

func (in *Interp) chanRecv(c ChanV) (V, bool) {
	in.specAbortIf("chan op in region")
	if c.C == nil {
		in.unsupported("recv on nil channel")
	}
	ch := c.C
	s := in.ensureSched()
	g := s.curG()
	s.tick(g)
	if len(ch.Buf) > 0 {
		v := ch.Buf[0]
		ch.Buf = append([]V{}, ch.Buf[1:]...)
		if len(ch.bufVC) > 0 {
			g.vc = joinVC(g.vc, ch.bufVC[0])
			ch.bufVC = ch.bufVC[1:]
		}
		return v, true
	}
	if len(ch.sendq) > 0 {
		w := ch.sendq[0]
		ch.sendq = ch.sendq[1:]
		g.vc = joinVC(g.vc, w.g.vc)
		w.g.vc = joinVC(w.g.vc, g.vc)
		w.g.blocked = false
		s.tick(g)
		s.tick(w.g)
		return w.val, true
	}
	if ch.Closed {
		g.vc = joinVC(g.vc, ch.closeVC)
		return in.zero(ch.ET), false
	}
	ch.recvq = append(ch.recvq, &chanWaiter{g: g})
	g.xval, g.xok = nil, false
	s.block()
	if g.xval == nil && !g.xok {
		// woken by close
		g.vc = joinVC(g.vc, ch.closeVC)
		return in.zero(ch.ET), false
	}
	return g.xval, g.xok
}

func (in *Interp) chanClose(c ChanV) {
	in.specAbortIf("chan op in region")
	if c.C == nil {
		in.goPanicStr("close of nil channel")
	}
	ch := c.C
	if ch.Closed {
		in.goPanicStr("close of closed channel")
	}
	s := in.ensureSched()
	g := s.curG()
	s.tick(g)
	ch.Closed = true
	ch.closeVC = append([]int{}, g.vc...)
	s.tick(g)
	for _, w := range ch.recvq {
		w.g.xval, w.g.xok = nil, false
		w.g.blocked = false
	}
	ch.recvq = nil
}

func (in *Interp) selectOp(fr *Frame, x *ssa.Select) V {
	for i, st := range x.States {
		ch := in.get(fr, st.Chan).(ChanV)
		if ch.C == nil {
			continue
		}
		if st.Dir == types.SendOnly {
			if (len(ch.C.Buf) < ch.C.Cap || len(ch.C.recvq) > 0) && !ch.C.Closed {
				in.chanSend(ch, in.get(fr, st.Send))
				return in.selectResult(x, i, true, nil)
			}
		} else {
			if len(ch.C.Buf) > 0 || ch.C.Closed || len(ch.C.sendq) > 0 {
				v, ok := in.chanRecv(ch)
				return in.selectResult(x, i, ok, v)
			}
		}
	}
	if !x.Blocking {
		return in.selectResult(x, -1, false, nil)
	}
	in.unsupported("blocking select")
	return nil
}

func (in *Interp) selectResult(x *ssa.Select, idx int, recvOk bool, recv V) V {
	r := TupleV{BVConst(uint64(int64(idx)), 64), BoolT(recvOk)}
	for i, st := range x.States {
		if st.Dir == types.RecvOnly {
			if i == idx && recv != nil {
				r = append(r, recv)
			} else {
				r = append(r, in.zero(st.Chan.Type().Underlying().(*types.Chan).Elem()))
			}
		}
	}
	return r
}

// ---- mutexes ----

func (in *Interp) mutexLock(p Ptr) {
	if in.sched == nil || len(in.sched.gs) < 2 {
		return
	}
	s := in.sched
	g := s.curG()
	m := s.mutexes[p.C]
	if m == nil {
		m = &simMutex{}
		s.mutexes[p.C] = m
	}
	for m.owner != nil && m.owner != g {
		m.waiters = append(m.waiters, g)
		s.block()
	}
	m.owner = g
	g.vc = joinVC(g.vc, m.vc)
}

func (in *Interp) mutexUnlock(p Ptr) {
	if in.sched == nil || len(in.sched.gs) < 2 {
		return
	}
	s := in.sched
	g := s.curG()
	m := s.mutexes[p.C]
	if m == nil {
		return
	}
	s.tick(g)
	m.vc = append([]int{}, g.vc...)
	s.tick(g)
	m.owner = nil
	for _, w := range m.waiters {
		w.blocked = false
	}
	m.waiters = nil
}
