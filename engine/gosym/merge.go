package gosym

import (
	"golang.org/x/tools/go/ssa"
)

// State merging for side-effect-free regions ("if-conversion").
//
// At an If with a symbolic condition in block B whose immediate
// post-dominator J exists, both sides are executed speculatively up to J.  If
// neither side has an externally visible effect (store to a pre-existing
// cell, map/channel mutation, defer, go, panic, harness intrinsic, fork), the
// phis of J receive ite(cond, vT, vF) and execution continues at J on a single
// path.  Otherwise the speculation is undone and the If forks as usual.

type specAbort struct{ why string }

type postDom struct {
	ipdom map[*ssa.BasicBlock]*ssa.BasicBlock
}

func (in *Interp) ipdomOf(fn *ssa.Function, b *ssa.BasicBlock) *ssa.BasicBlock {
	pd, ok := in.pdoms[fn]
	if !ok {
		pd = computePostDom(fn)
		in.pdoms[fn] = pd
	}
	return pd.ipdom[b]
}

func computePostDom(fn *ssa.Function) *postDom {
	n := len(fn.Blocks)
	// pdom sets as bitsets over n+1 nodes (n = virtual exit)
	words := (n + 1 + 63) / 64
	full := make([]uint64, words)
	for i := 0; i <= n; i++ {
		full[i/64] |= 1 << uint(i%64)
	}
	sets := make([][]uint64, n+1)
	for i := 0; i < n; i++ {
		sets[i] = append([]uint64{}, full...)
	}
	sets[n] = make([]uint64, words)
	sets[n][n/64] |= 1 << uint(n%64)
	succs := func(i int) []int {
		b := fn.Blocks[i]
		if len(b.Succs) == 0 {
			return []int{n}
		}
		r := make([]int, len(b.Succs))
		for k, s := range b.Succs {
			r[k] = s.Index
		}
		return r
	}
	changed := true
	for changed {
		changed = false
		for i := n - 1; i >= 0; i-- {
			nw := append([]uint64{}, full...)
			for _, s := range succs(i) {
				for w := range nw {
					nw[w] &= sets[s][w]
				}
			}
			nw[i/64] |= 1 << uint(i%64)
			for w := range nw {
				if nw[w] != sets[i][w] {
					changed = true
				}
			}
			sets[i] = nw
		}
	}
	count := func(s []uint64) int {
		c := 0
		for _, w := range s {
			for ; w != 0; w &= w - 1 {
				c++
			}
		}
		return c
	}
	pd := &postDom{ipdom: map[*ssa.BasicBlock]*ssa.BasicBlock{}}
	for i := 0; i < n; i++ {
		best, bestC := -1, -1
		for j := 0; j < n; j++ { // exclude virtual exit
			if j == i || sets[i][j/64]&(1<<uint(j%64)) == 0 {
				continue
			}
			if c := count(sets[j]); c > bestC {
				best, bestC = j, c
			}
		}
		if best >= 0 {
			pd.ipdom[fn.Blocks[i]] = fn.Blocks[best]
		}
	}
	return pd
}

func (in *Interp) specAbortIf(why string) {
	if in.spec > 0 {
		panic(&specAbort{why})
	}
}

// refsNewCells reports whether v references a cell allocated after base.
func refsNewCells(v V, base int, depth int) bool {
	if depth > 6 {
		return true
	}
	isNew := func(id int) bool { return id > base && id < 1<<40 }
	switch x := v.(type) {
	case Ptr:
		return x.C != nil && isNew(x.C.ID)
	case SliceV:
		return x.Arr != nil && isNew(x.Arr.ID)
	case IfaceV:
		return x.T != nil && refsNewCells(x.V, base, depth+1)
	case StructV:
		for _, f := range x {
			if refsNewCells(f, base, depth+1) {
				return true
			}
		}
	case ArrayV:
		for _, f := range x {
			if refsNewCells(f, base, depth+1) {
				return true
			}
		}
	case TupleV:
		for _, f := range x {
			if refsNewCells(f, base, depth+1) {
				return true
			}
		}
	case MapV:
		return x.M != nil && isNew(x.M.ID)
	case ChanV:
		return x.C != nil && isNew(x.C.ID)
	case FuncV:
		if x.ID > 0 {
			return true // closure created inside the region
		}
	case *IterV:
		return true
	}
	return false
}

// mergeable reports whether two values can be merged with an ite without forking.
func mergeable(a, b V) bool {
	switch x := a.(type) {
	case *Term:
		_, ok := b.(*Term)
		return ok
	case StructV:
		y, ok := b.(StructV)
		if !ok || len(x) != len(y) {
			return false
		}
		for i := range x {
			if !mergeable(x[i], y[i]) {
				return false
			}
		}
		return true
	case ArrayV:
		y, ok := b.(ArrayV)
		if !ok || len(x) != len(y) {
			return false
		}
		for i := range x {
			if !mergeable(x[i], y[i]) {
				return false
			}
		}
		return true
	case TupleV:
		y, ok := b.(TupleV)
		if !ok || len(x) != len(y) {
			return false
		}
		for i := range x {
			if !mergeable(x[i], y[i]) {
				return false
			}
		}
		return true
	case StrV:
		y, ok := b.(StrV)
		return ok && x.Len() == y.Len()
	case nil:
		return b == nil
	}
	k1, ok1 := concKey(a)
	k2, ok2 := concKey(b)
	return ok1 && ok2 && k1 == k2
}

func (in *Interp) mergeV(c *Term, a, b V) V {
	switch x := a.(type) {
	case *Term:
		return in.domConst(Ite(c, x, b.(*Term)))
	case StructV:
		y := b.(StructV)
		r := make(StructV, len(x))
		for i := range x {
			r[i] = in.mergeV(c, x[i], y[i])
		}
		return r
	case ArrayV:
		y := b.(ArrayV)
		r := make(ArrayV, len(x))
		for i := range x {
			r[i] = in.mergeV(c, x[i], y[i])
		}
		return r
	case TupleV:
		y := b.(TupleV)
		r := make(TupleV, len(x))
		for i := range x {
			r[i] = in.mergeV(c, x[i], y[i])
		}
		return r
	case StrV:
		y := b.(StrV)
		if x.Sym == nil && y.Sym == nil && x.S == y.S {
			return x
		}
		ts := make([]*Term, x.Len())
		for i := range ts {
			ts[i] = Ite(c, x.At(i), y.At(i))
		}
		return MkStr(ts)
	}
	return a
}

// runUntil executes blocks of fr until control reaches stop (returns true) or
// the function returns (false).
func (in *Interp) runUntil(fr *Frame, stop *ssa.BasicBlock, startSteps int64) bool {
	for fr.block != stop {
		b := fr.block
		i := 0
		if fr.skipPhis {
			fr.skipPhis = false
			for i < len(b.Instrs) {
				if _, ok := b.Instrs[i].(*ssa.Phi); !ok {
					break
				}
				i++
			}
		} else if len(b.Instrs) > 0 {
			if _, ok := b.Instrs[0].(*ssa.Phi); ok {
				var vals []V
				pi := -1
				for k, p := range b.Preds {
					if p == fr.prev {
						pi = k
						break
					}
				}
				for ; i < len(b.Instrs); i++ {
					phi, ok := b.Instrs[i].(*ssa.Phi)
					if !ok {
						break
					}
					vals = append(vals, in.get(fr, phi.Edges[pi]))
				}
				for k := 0; k < i; k++ {
					in.set(fr, b.Instrs[k].(*ssa.Phi), vals[k])
				}
			}
		}
		jumped := false
		for ; i < len(b.Instrs) && !jumped; i++ {
			in.steps++
			if in.steps-startSteps > in.SpecMaxSteps {
				panic(&specAbort{"speculation step budget"})
			}
			switch in.exec(fr, b.Instrs[i]) {
			case kReturn:
				return false
			case kJump:
				jumped = true
			}
		}
		if !jumped {
			panic("block fell through in speculation")
		}
	}
	return true
}

// regionMergeable scans the blocks between B and its post-dominator J for
// instructions that can never be part of a merged region.
func regionMergeable(B, J *ssa.BasicBlock) bool {
	seen := map[*ssa.BasicBlock]bool{J: true}
	var work []*ssa.BasicBlock
	for _, s := range B.Succs {
		work = append(work, s)
	}
	n := 0
	for len(work) > 0 {
		b := work[len(work)-1]
		work = work[:len(work)-1]
		if seen[b] {
			continue
		}
		seen[b] = true
		n++
		if n > 64 || b == B {
			return false // large region or loop back to the branch
		}
		for _, ins := range b.Instrs {
			switch x := ins.(type) {
			case *ssa.Defer, *ssa.Go, *ssa.Send, *ssa.MapUpdate, *ssa.Panic, *ssa.Return, *ssa.RunDefers, *ssa.Select:
				return false
			case *ssa.Call:
				if c := x.Call.StaticCallee(); c != nil {
					nm := c.Name()
					if len(nm) > 5 && (nm[:5] == "verif" || nm[:6] == "nondet") {
						switch nm {
						case "verifTier", "verifB2I", "verifSymbolic", "verifMulFitsInt64", "verifMulFitsUint64", "verifAddFitsUint64", "verifMulAddEqInt64":
						default:
							return false
						}
					}
				}
			}
		}
		for _, s := range b.Succs {
			work = append(work, s)
		}
	}
	return true
}

// noMergeFuncs: interpreter loops whose branch decisions select the next
// instruction; merging them would make the program counter symbolic.
var noMergeFuncs = map[string]bool{
	"(*" + RepoModule + "/runtime.LuaCont).RunInThread": true,
	"(*" + RepoModule + "/runtime.Thread).RunContinuation": true,
}

// tryMerge attempts to if-convert the If at the end of fr.block.
func (in *Interp) tryMerge(fr *Frame, x *ssa.If, c *Term) bool {
	if in.NoMerge || in.spec >= 64 || in.concreteGen != nil {
		return false
	}
	if noMergeFuncs[fr.fn.String()] {
		return false
	}
	B := fr.block
	J := in.ipdomOf(fr.fn, B)
	if J == nil {
		return false
	}
	// static (hence deterministic across workers and re-executions) filter
	ok, cached := in.mergeStatic[x]
	if !cached {
		ok = regionMergeable(B, J)
		in.mergeStatic[x] = ok
	}
	if !ok {
		return false
	}
	// both sides must be feasible, otherwise the branch is forced and the
	// ordinary decision procedure handles it (speculating an infeasible side
	// only produces junk)
	if in.spec == 0 {
		mv, mok := in.evalBool(c)
		if !(mok && mv) && in.Solver.CheckWith(c) == Unsat {
			return false
		}
		if !(mok && !mv) && in.Solver.CheckWith(Not(c)) == Unsat {
			return false
		}
	}
	// J must begin with phis or be reached without needing values (fine either way)
	var phis []*ssa.Phi
	for _, ins := range J.Instrs {
		if p, ok := ins.(*ssa.Phi); ok {
			phis = append(phis, p)
		} else {
			break
		}
	}
	nDefers := len(fr.defers)
	base := in.cellID
	type sideRes struct {
		vals   []V
		defs   []*Term
		ok     bool
		why    string
		writes map[*Cell]V // final values of pre-existing cells written on this side
		order  []*Cell
	}
	runSide := func(start *ssa.BasicBlock, guard *Term) (res sideRes) {
		mark := len(in.trail)
		level := in.Solver.Level()
		pcLen := len(in.pc)
		factLen := len(in.facts)
		domLen := len(in.domTrail)
		savedDefs := in.specDefs
		in.specDefs = nil
		savedBase := in.specBase
		in.specBase = base
		savedFrame := in.curFrame
		savedDepth := in.depth
		in.spec++
		startSteps := in.steps
		savedModel, savedMemo := in.model, in.evalMemo
		if v, ok := in.evalBool(guard); !ok || !v {
			in.setModel(nil) // the witness model does not lie on this side
		}
		defer func() {
			in.spec--
			in.model, in.evalMemo = savedModel, savedMemo
			res.defs = in.specDefs
			in.specDefs = savedDefs
			in.specBase = savedBase
			in.undoTo(mark)
			in.Solver.PopTo(level)
			in.pc = in.pc[:pcLen]
			for i := len(in.facts) - 1; i >= factLen; i-- {
				delete(in.factMap, in.facts[i].k)
			}
			in.facts = in.facts[:factLen]
			in.domUndoTo(domLen)
			in.curFrame = savedFrame
			in.depth = savedDepth
			fr.block, fr.prev = B, fr.prev
			fr.panicking, fr.panic = false, nil
			if len(fr.defers) != nDefers {
				fr.defers = fr.defers[:nDefers]
				res.ok = false
				res.why = "defer in region"
			}
			if r := recover(); r != nil {
				switch e := r.(type) {
				case *specAbort:
					res.ok, res.why = false, e.why
				case *goPanic:
					res.ok, res.why = false, "panic in region"
				case *pathEnd:
					if e.Kind == "unsupported" || e.Kind == "infeasible" {
						res.ok, res.why = false, e.Kind+": "+e.Msg
						return
					}
					panic(r)
				default:
					panic(r)
				}
			}
		}()
		in.Solver.Push()
		in.Solver.Assert(guard)
		in.pc = append(in.pc, guard)
		prevSaved := fr.prev
		fr.prev, fr.block = B, start
		reached := in.runUntil(fr, J, startSteps)
		if !reached {
			fr.prev = prevSaved
			return sideRes{ok: false, why: "return in region"}
		}
		// arrival: evaluate phi operands (or take the values an inner merge
		// that ended at the same join block already stored in the phis)
		inner := fr.skipPhis
		fr.skipPhis = false
		pi := -1
		for k, p := range J.Preds {
			if p == fr.prev {
				pi = k
			}
		}
		if pi < 0 && !inner && len(phis) > 0 {
			fr.prev = prevSaved
			return sideRes{ok: false, why: "arrival edge not found"}
		}
		vals := make([]V, len(phis))
		for k, p := range phis {
			var v V
			if inner {
				v = in.get(fr, p)
			} else {
				v = in.get(fr, p.Edges[pi])
			}
			if refsNewCells(v, base, 0) {
				fr.prev = prevSaved
				return sideRes{ok: false, why: "phi value references region-local cell"}
			}
			vals[k] = v
		}
		fr.prev = prevSaved
		// memory effects on pre-existing cells: collected from the trail
		writes := map[*Cell]V{}
		var order []*Cell
		for _, e := range in.trail[mark:] {
			if e.fn != nil {
				return sideRes{ok: false, why: "non-cell effect in region"}
			}
			c := e.c
			if c.ID > base && c.ID < 1<<40 {
				continue // region-local cell
			}
			if _, seen := writes[c]; seen {
				continue
			}
			if refsNewCells(c.V, base, 0) {
				return sideRes{ok: false, why: "store of region-local reference"}
			}
			writes[c] = c.V
			order = append(order, c)
		}
		return sideRes{vals: vals, ok: true, writes: writes, order: order}
	}
	savedPrev := fr.prev
	rT := runSide(B.Succs[0], c)
	fr.prev = savedPrev
	if !rT.ok {
		// definitional constraints stay valid (fresh-variable definitions may be
		// cached, e.g. in fpBits) even though the region is abandoned
		for _, d := range rT.defs {
			in.define(d)
		}
		in.cellID = base
		debugf("merge abort T in %s b%d: %s", fr.fn.Name(), B.Index, rT.why)
		return false
	}
	rF := runSide(B.Succs[1], Not(c))
	fr.prev = savedPrev
	if !rF.ok {
		for _, d := range rT.defs {
			in.define(d)
		}
		for _, d := range rF.defs {
			in.define(d)
		}
		in.cellID = base
		debugf("merge abort F in %s b%d: %s", fr.fn.Name(), B.Index, rF.why)
		return false
	}
	for k := range phis {
		if !mergeable(rT.vals[k], rF.vals[k]) {
				in.cellID = base
			return false
		}
	}
	// memory merge: every pre-existing cell written on either side
	type cw struct {
		c      *Cell
		vT, vF V
	}
	var cws []cw
	seen := map[*Cell]bool{}
	for _, side := range [][]*Cell{rT.order, rF.order} {
		for _, cell := range side {
			if seen[cell] {
				continue
			}
			seen[cell] = true
			vT, okT := rT.writes[cell]
			if !okT {
				vT = cell.V
			}
			vF, okF := rF.writes[cell]
			if !okF {
				vF = cell.V
			}
			if !mergeable(vT, vF) {
						in.cellID = base
				return false
			}
			cws = append(cws, cw{cell, vT, vF})
		}
	}
	in.cellID = base
	for _, w := range cws {
		in.writeLeaf(w.c, in.mergeV(c, w.vT, w.vF))
	}
	// definitional constraints created inside the region hold unconditionally
	for _, d := range rT.defs {
		in.define(d)
	}
	for _, d := range rF.defs {
		in.define(d)
	}
	for k, p := range phis {
		in.set(fr, p, in.mergeV(c, rT.vals[k], rF.vals[k]))
	}
	fr.prev, fr.block = B, J
	fr.skipPhis = len(phis) > 0 || true
	in.Merges++
	return true
}
